#!/bin/bash
# builds the framework binaries from files on disk only (offline)
set -e
cd "$(dirname "$0")/tools"
V="$(cd .. && pwd)"
export GOFLAGS=-mod=mod GOPROXY=off GOSUMDB=off GOTOOLCHAIN=local
mkdir -p "$V/bin" "$V/evidence" "$V/replays"
go build -o "$V/bin/vcheck" ./cmd/vcheck
go build -o "$V/bin/zinstr" ./cmd/zinstr
