#!/bin/bash
# builds the framework binaries from files on disk only (offline)
set -e
cd /verif/tools
export GOFLAGS=-mod=mod GOPROXY=off GOSUMDB=off GOTOOLCHAIN=local
mkdir -p /verif/bin /verif/evidence /verif/replays
go build -o /verif/bin/vcheck ./cmd/vcheck
go build -o /verif/bin/zinstr ./cmd/zinstr
