#!/usr/bin/env python3
# prints the markdown table of kept seeded changes (DESIGN.md §11)
import json,glob
rows=[]
for f in sorted(glob.glob('/verif/seeded/*/meta.json')):
    m=json.load(open(f)); c=m['check']
    first=c['first_attempt']
    how = '' if first=='caught' else (c.get('strengthening') or '')
    rows.append(f"| {m['id']} | {', '.join(m['files_changed'])} | {m['needs_to_manifest']} | {first} | {c['now']} ({c['clause']}) | {how} |")
print("| id | files | needs, in order to manifest | first run of the check | now (clause) | what was strengthened |")
print("|---|---|---|---|---|---|")
print("\n".join(rows))
