module verif/tools

go 1.21
