#!/bin/bash
# batch.sh seed|var <ROUND> <TAG> <PROP...> : run seedcheck.sh / varcheck.sh for K=1..3 of every
# given property, inferring the demo's package directory from the first lines of the demo file.
MODE=$1; export ROUND=$2; export TAG=$3; shift 3
for P in "$@"; do
  for K in 1 2 3; do
    SRC=/tmp/$ROUND-$P/_out
    if [ "$MODE" = seed ]; then
      [ -f $SRC/m$K.diff ] || { echo "== $P-$TAG$K: no m$K.diff"; continue; }
      DEMO=$(ls $SRC/m${K}_demo* 2>/dev/null | head -1)
      D=$(head -5 "$DEMO" | grep -oE "diode/internal/diodes|hlog/internal/mutil|internal/cbor|internal/json|diode|hlog|pkgerrors|\blog\b" | head -1)
      PKG=$(grep -m1 '^package ' "$DEMO" | awk '{print $2}')
      case "$PKG" in diodes|diodes_test) D=diode/internal/diodes;; diode|diode_test) D=diode;; hlog|hlog_test) D=hlog;; cbor|cbor_test) D=internal/cbor;; mutil|mutil_test) D=hlog/internal/mutil;; zerolog|zerolog_test) D=.;; esac
      D=${D:-.}
      /verif/tools/seedcheck.sh $P $K $D 2>&1 | grep -v conda | grep -E "^==|build=|check_exit|^violation|PATCH" | cut -c1-260
    else
      [ -f $SRC/v$K.diff ] || { echo "== $P-$TAG$K: no v$K.diff"; continue; }
      WALL=${WALL:-30} /verif/tools/varcheck.sh $P $K 2>&1 | grep -v conda | grep -v "race mode" | cut -c1-300
    fi
  done
done
