#!/bin/bash
# varcheck.sh <PROP> <K> : a property-PRESERVING re-implementation written by a sub-agent
# (/tmp/$ROUND-$P/_out/vK.diff). Confirms in a scratch worktree that it applies, builds and
# passes the existing suite (also under -race for the concurrent packages), then runs the
# registered check against a patched scratch copy of /repo (VERIF_REPO) with two seeds.
# The check must stay silent: exit 0, no VIOLATION line.
export GOFLAGS=-mod=mod GOPROXY=off GOSUMDB=off GOTOOLCHAIN=local
P=$1; K=$2
SRC=/tmp/${ROUND:-w6}-$P/_out
WT=/tmp/vt-$P-v$K
ID=$P-${TAG:-v}$K
OUT=/verif/variants/$ID
rm -rf $OUT; mkdir -p $OUT
git -C /repo worktree remove --force $WT 2>/dev/null
git -C /repo worktree add -q --detach $WT HEAD || exit 2
cd $WT
git apply --check $SRC/v$K.diff || { echo "PATCH DOES NOT APPLY"; exit 2; }
git apply $SRC/v$K.diff
go build ./... > $OUT/build.log 2>&1; B=$?
go build -tags binary_log ./... >> $OUT/build.log 2>&1; B2=$?
go test -count=1 ./... > $OUT/suite.log 2>&1
SFAIL=$(grep -E "^(--- FAIL|FAIL)" $OUT/suite.log | grep -v journald | grep -v "^FAIL$" | head -5)
go test -race -count=1 . ./diode/... ./hlog/... ./internal/... > $OUT/race.log 2>&1; R=$?
echo "== $ID build=$B/$B2 race_suite=$R suite_failures_other_than_journald=[$SFAIL]"
cd /; git -C /repo worktree remove --force $WT
cp $SRC/v$K.diff $OUT/patch.diff; cp $SRC/v$K.md $OUT/agent_notes.md; cp $SRC/v${K}_stress* $OUT/ 2>/dev/null
RT=$(mktemp -d /tmp/varrepo-$ID-XXXX)
rsync -a --exclude .git --exclude cmd /repo/ $RT/
( cd $RT && git apply $OUT/patch.diff ) || exit 2
for s in 1 7; do
( cd ${VDIR:-/verif} && VERIF_DIR=${VDIR:-/verif} VERIF_SEED=$s VERIF_REPO=$RT VERIF_NO_EVIDENCE=1 VERIF_KEEP_REPLAYS=1 bin/vcheck $P --wall ${WALL:-45} > $OUT/check.$s.log 2>&1; echo "seed $s check_exit=$? (want 0)" )
grep -E "^violation|^VIOLATION|^KNOWN|vcheck: $P" $OUT/check.$s.log | cut -c1-600 | head -5
done
rm -rf $RT
