// zinstr rewrites a scratch copy of rs/zerolog (see package instr).
//
//	zinstr -root <scratch module root>
package main

import (
	"flag"
	"fmt"
	"os"

	"verif/tools/instr"
)

func main() {
	root := flag.String("root", "", "scratch module root")
	flag.Parse()
	if *root == "" {
		fmt.Fprintln(os.Stderr, "usage: zinstr -root DIR")
		os.Exit(2)
	}
	notes, err := instr.Run(*root)
	if err != nil {
		fmt.Fprintln(os.Stderr, "zinstr:", err)
		os.Exit(2)
	}
	fmt.Print(notes)
}
