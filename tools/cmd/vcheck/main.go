// vcheck is the runner behind every registered check:
//
//	vcheck <ID> [--tier quick|thorough]     search for violations of property ID
//	vcheck replay <file>                    replay a violation file against the current tree
//	vcheck selftest determinism [ID...]     same seed => same event log, across processes and GOMAXPROCS
//	vcheck selftest seeded [id...]          every kept breaking change (seeded/) is reported
//	vcheck selftest channels                the simulator's channel/select/timer emulation against Go's semantics
//	vcheck selftest variants [id...]        every kept property-preserving re-implementation (variants/) stays silent
//
// It copies /repo's working tree to a scratch directory, instruments the copy,
// builds the simulator against it, fans out worker processes over seeded run
// ranges, confirms and classifies violations, writes evidence and removes the
// scratch directory. Exit 0 = held on everything explored, 1 = VIOLATION line
// printed, 2 = infrastructure trouble (never a VIOLATION).
package main

import (
	"bytes"
	"encoding/binary"
	"encoding/json"
	"fmt"
	"io"
	"io/fs"
	"os"
	"os/exec"
	"os/signal"
	"path/filepath"
	"regexp"
	"runtime"
	"sort"
	"strconv"
	"strings"
	"sync"
	"syscall"
	"time"

	"verif/tools/instr"
)

// repoDir is the tree under test: /repo, or $VERIF_REPO (used by the seeded
// self-test, which checks patched scratch copies and never touches /repo).
var repoDir = func() string {
	if d := os.Getenv("VERIF_REPO"); d != "" {
		return d
	}
	return "/repo"
}()

// verifDir is where evidence/, replays/, sim/ and known_findings.json live: the
// parent of the directory holding this executable (so that a snapshot of /verif
// run elsewhere keeps its outputs to itself), or $VERIF_DIR.
var verifDir = func() string {
	if d := os.Getenv("VERIF_DIR"); d != "" {
		return d
	}
	if exe, err := os.Executable(); err == nil {
		if d := filepath.Dir(filepath.Dir(exe)); d != "" {
			if _, err := os.Stat(filepath.Join(d, "sim", "zsim")); err == nil {
				return d
			}
		}
	}
	return "/verif"
}()

type propCfg struct {
	World       string
	RaceWorld   string // world run in a -race build next to the functional batch ("" = none)
	ExtraWorld  string // a second functional world that exercises the same mechanism; two of the workers run it
	Arch32      bool   // one more worker runs the same world built for GOARCH=386 (alignment of 64-bit atomics, int width)
	Tags        string
	Level       string
	QuickWall   float64
	ThoroughSec float64
	Rule        string
	Assumptions []string
}

var baseAssumptions = []string{
	"sync/atomic operations are sequentially consistent (Go memory model); compiler/hardware reordering of racy plain accesses is not modelled",
	"preemption granularity is the statement plus every atomic/mutex/cond/pool operation and every simulated endpoint call",
	"the go/ast source rewriter (zinstr) and the zsim shims preserve the behaviour of the code under test",
	"stdlib internals (context, log, encoding/json, net/http types) run real and un-instrumented",
	"sampling, not proof: a clean batch is evidence for the schedules and faults explored only",
}

const ruleCommon = "each run = one seeded simulation: (VERIF_SEED, run index) seeds a PRNG that answers every choice (workload, configuration, scheduling decision at every sync point and armed statement, pool hand-out, fault). A run is non-trivial when the scheduler moved the baton away from a task that could have continued at least once, or at least one fault fired; distinct = distinct case hashes (hash over every scheduling decision and every answer of the choice stream, i.e. workload, configuration and faults) among non-trivial runs."

var props = map[string]propCfg{
	"C10": {Arch32: true, World: "diode", RaceWorld: "dioderace", Level: "exploration", QuickWall: 20, ThoroughSec: 600, Rule: ruleCommon},
	"C11": {Arch32: true, World: "diode", Level: "exploration", QuickWall: 20, ThoroughSec: 600, Rule: ruleCommon},
	"C12": {Arch32: true, World: "diode", Level: "exploration", QuickWall: 20, ThoroughSec: 600, Rule: ruleCommon},
	"C05": {World: "c05", ExtraWorld: "c18", Level: "exploration", QuickWall: 25, ThoroughSec: 600, Rule: ruleCommon},
	"C13": {Arch32: true, World: "c13", Level: "exploration", QuickWall: 15, ThoroughSec: 300, Rule: ruleCommon},
	"C14": {World: "c14", Level: "exploration", QuickWall: 15, ThoroughSec: 300, Rule: ruleCommon + " Faults: per (destination, event) outcome in {ok, error, short write}, sampled (not enumerated) over 1-4 destinations x 1-6 events x 1-2 tasks."},
	"C15": {World: "c15", Level: "exploration", QuickWall: 20, ThoroughSec: 600, Rule: ruleCommon},
	"C17": {World: "c17", Tags: "binary_log", Level: "fault_enumeration", QuickWall: 25, ThoroughSec: 600, Rule: ruleCommon + " Per run: a binary log stream written by 1-3 logging tasks; every byte offset of the stream (all offsets up to 1200 bytes, else a drawn stride plus +-12 around every event boundary) is taken as crash point, then 10-40 stored-byte/reader fault combinations are applied."},
	"C18": {World: "c18", Level: "exploration", QuickWall: 20, ThoroughSec: 600, Rule: ruleCommon},
	"C06": {World: "c06", ExtraWorld: "c15", RaceWorld: "c06race", Level: "exploration", QuickWall: 25, ThoroughSec: 600, Rule: ruleCommon},
}

func env() []string {
	e := os.Environ()
	e = append(e, "GOFLAGS=-mod=mod", "GOPROXY=off", "GOSUMDB=off", "GOTOOLCHAIN=local", "GORACE=halt_on_error=1")
	return e
}

func fatal2(format string, a ...interface{}) {
	fmt.Fprintf(os.Stderr, "vcheck: "+format+"\n", a...)
	cleanup()
	os.Exit(2)
}

var scratchDirs []string

func cleanup() {
	for _, d := range scratchDirs {
		os.RemoveAll(d)
	}
	scratchDirs = nil
}

func copyFile(src, dst string) error {
	in, err := os.Open(src)
	if err != nil {
		return err
	}
	defer in.Close()
	if err := os.MkdirAll(filepath.Dir(dst), 0o755); err != nil {
		return err
	}
	out, err := os.Create(dst)
	if err != nil {
		return err
	}
	if _, err := io.Copy(out, in); err != nil {
		out.Close()
		return err
	}
	return out.Close()
}

func copyTree(src, dst string, skip func(rel string, d fs.DirEntry) bool) error {
	return filepath.WalkDir(src, func(p string, d fs.DirEntry, err error) error {
		if err != nil {
			return err
		}
		rel, _ := filepath.Rel(src, p)
		if rel == "." {
			return nil
		}
		if skip != nil && skip(rel, d) {
			if d.IsDir() {
				return filepath.SkipDir
			}
			return nil
		}
		if d.IsDir() {
			return os.MkdirAll(filepath.Join(dst, rel), 0o755)
		}
		if !d.Type().IsRegular() {
			return nil
		}
		return copyFile(p, filepath.Join(dst, rel))
	})
}

// prepare builds the instrumented simulator for the current /repo working tree.
func prepare(id string, tags string, race bool) (scratch, worker string) {
	base := os.Getenv("TMPDIR")
	if base == "" {
		base = "/tmp"
	}
	// scratch directories of runs that were killed (SIGKILL, time limit) are removed by the
	// next run: the directory name ends in the pid of its owner
	if old, _ := filepath.Glob(filepath.Join(base, "verif-scratch.*.*")); len(old) > 0 {
		for _, d := range old {
			pid, err := strconv.Atoi(d[strings.LastIndexByte(d, '.')+1:])
			if err != nil || pid == os.Getpid() {
				continue
			}
			if _, err := os.Stat(fmt.Sprintf("/proc/%d", pid)); os.IsNotExist(err) {
				os.RemoveAll(d)
			}
		}
	}
	scratch = filepath.Join(base, fmt.Sprintf("verif-scratch.%s.%d", id, os.Getpid()))
	os.RemoveAll(scratch)
	if err := os.MkdirAll(scratch, 0o755); err != nil {
		fatal2("%v", err)
	}
	scratchDirs = append(scratchDirs, scratch)
	err := copyTree(repoDir, scratch, func(rel string, d fs.DirEntry) bool {
		if d.IsDir() {
			switch rel {
			case ".git", "cmd", "internal/cbor/examples", "zsim":
				return true
			}
			return false
		}
		if strings.HasSuffix(rel, "_test.go") {
			return true
		}
		ext := filepath.Ext(rel)
		return !(ext == ".go" || rel == "go.mod" || rel == "go.sum")
	})
	if err != nil {
		fatal2("copy of %s failed: %v", repoDir, err)
	}
	if err := copyTree(filepath.Join(verifDir, "sim", "zsim"), filepath.Join(scratch, "zsim"), nil); err != nil {
		fatal2("copy of the simulator sources failed: %v", err)
	}
	notes, err := instr.Run(scratch)
	if err != nil {
		fatal2("instrumentation failed: %v", err)
	}
	os.WriteFile(filepath.Join(scratch, "zinstr.log"), []byte(notes), 0o644)
	// go.mod: language version for the harness (below 1.22: loop variable
	// semantics of zerolog's own code stay as they are) and porcupine
	gm, err := os.ReadFile(filepath.Join(scratch, "go.mod"))
	if err != nil {
		fatal2("%v", err)
	}
	re := regexp.MustCompile(`(?m)^go [0-9.]+$`)
	gms := re.ReplaceAllString(string(gm), "go 1.21")
	gms += "\nrequire github.com/anishathalye/porcupine v1.3.0\n"
	os.WriteFile(filepath.Join(scratch, "go.mod"), []byte(gms), 0o644)
	worker, out, err := buildWorker(scratch, tags, race)
	if err != nil {
		fmt.Fprintf(os.Stderr, "%s\n", out)
		fatal2("the instrumented copy of %s does not build (this is a build problem, not a property violation)", repoDir)
	}
	return scratch, worker
}

// buildWorker compiles the simulator worker in the scratch module; with race it
// is built with -race (spin baton, see zsim/baton_race.go).
func buildWorker(scratch, tags string, race bool) (worker string, out []byte, err error) {
	return buildWorkerFor(scratch, tags, race, "")
}

// buildWorkerFor: goarch "" = the host's; "386" = the 32-bit batch (the kernel runs
// 32-bit binaries; no cgo, no race detector there).
func buildWorkerFor(scratch, tags string, race bool, goarch string) (worker string, out []byte, err error) {
	worker = filepath.Join(scratch, "simworker")
	if goarch != "" {
		worker += "." + goarch
	}
	args := []string{"build"}
	if tags != "" {
		args = append(args, "-tags", tags)
	}
	if race {
		worker += ".race"
		args = append(args, "-race")
	}
	// hosted=1: in this binary goroutines are only ever started inside a simulation (see zsim.Go)
	args = append(args, "-ldflags", "-X github.com/rs/zerolog/zsim.hosted=1", "-o", worker, "./zsim/cmd/simworker")
	cmd := exec.Command("go", args...)
	cmd.Dir = scratch
	cmd.Env = env()
	if goarch != "" {
		cmd.Env = append(cmd.Env, "GOARCH="+goarch, "CGO_ENABLED=0")
	}
	out, err = cmd.CombinedOutput()
	return worker, out, err
}

var lineRe = regexp.MustCompile(`(/[^\s:()]+\.go):(\d+)`)

// originalLines rewrites file:line references into the instrumented scratch
// copy (race reports, crash dumps) to lines of the original sources: zinstr puts
// zsim.Y(id) before every statement and records the original line of each id.
func originalLines(scratch, text string) string {
	cache := map[string][]int{}
	siteLines := []int(nil)
	if b, err := os.ReadFile(filepath.Join(scratch, "zsim", "sites_gen.go")); err == nil {
		if i := bytes.Index(b, []byte("SiteLines = []int32{")); i >= 0 {
			for _, f := range strings.FieldsFunc(string(b[i+20:]), func(r rune) bool { return r < '0' || r > '9' }) {
				n, _ := strconv.Atoi(f)
				siteLines = append(siteLines, n)
			}
		}
	}
	yRe := regexp.MustCompile(`zsim\.Y\((\d+)\)`)
	return lineRe.ReplaceAllStringFunc(text, func(m string) string {
		sm := lineRe.FindStringSubmatch(m)
		file, ln := sm[1], sm[2]
		if !strings.HasPrefix(file, scratch+"/") || strings.Contains(file, "/zsim/") {
			return m
		}
		mp, ok := cache[file]
		if !ok {
			b, err := os.ReadFile(file)
			if err == nil {
				cur := 0
				for _, l := range strings.Split(string(b), "\n") {
					if y := yRe.FindStringSubmatch(l); y != nil {
						id, _ := strconv.Atoi(y[1])
						if id < len(siteLines) {
							cur = siteLines[id]
						}
					}
					mp = append(mp, cur)
				}
			}
			cache[file] = mp
		}
		n, _ := strconv.Atoi(ln)
		rel := strings.TrimPrefix(file, scratch+"/")
		if n-1 < len(mp) && n >= 1 && mp[n-1] > 0 {
			return fmt.Sprintf("%s:%d", rel, mp[n-1])
		}
		return rel + ":?"
	})
}

// ---- worker output (mirrors simworker) ----

type TraceEv struct {
	Step int    `json:"step"`
	Now  int64  `json:"now"`
	Task string `json:"task"`
	What string `json:"what"`
}

type ViolationRec struct {
	Property   string         `json:"property"`
	World      string         `json:"world"`
	Seed       uint64         `json:"seed"`
	Run        int            `json:"run"`
	Clause     string         `json:"clause"`
	Msg        string         `json:"msg"`
	Summary    string         `json:"summary"`
	Choices    []uint32       `json:"choices"`
	OrigLen    int            `json:"orig_choices"`
	ShrinkRuns int            `json:"shrink_runs"`
	Stable     bool           `json:"stable"`
	Trace      []TraceEv      `json:"trace"`
	Probes     map[string]int `json:"probes,omitempty"`
	Arch32     bool           `json:"arch32,omitempty"` // found by the GOARCH=386 worker (set by the runner)
}

type Sample struct {
	Run     int       `json:"run"`
	Summary string    `json:"summary"`
	Steps   int       `json:"steps"`
	Choices int       `json:"choices"`
	Trace   []TraceEv `json:"trace,omitempty"`
}

type Stats struct {
	Runs       int            `json:"runs"`
	Nontrivial int            `json:"nontrivial"`
	Steps      int64          `json:"steps"`
	SimTimeNs  int64          `json:"sim_time_ns"`
	Switches   int64          `json:"switches"`
	Truncated  int            `json:"truncated"`
	Stuck      int            `json:"stuck_end_states"`
	Strategies map[string]int `json:"strategies"`
	Faults     map[string]int `json:"faults"`
	Probes     map[string]int `json:"probes"`
	WallS      float64        `json:"wall_s"`
	SitesHit   map[string]int `json:"sites_hit"`
	SitesTotal map[string]int `json:"sites_total"`
	Samples    []Sample       `json:"samples"`
	First      int
	Last       int
}

type Output struct {
	Stats      Stats          `json:"stats"`
	Violations []ViolationRec `json:"violations"`
	Findings   []ViolationRec `json:"findings"`
	Real       []string       `json:"real"`
	Stub       []string       `json:"stub"`
}

type ReplayFile struct {
	Property string    `json:"property"`
	World    string    `json:"world"`
	Seed     uint64    `json:"seed"`
	Run      int       `json:"run"`
	Clause   string    `json:"clause"`
	Msg      string    `json:"msg"`
	Summary  string    `json:"summary"`
	Choices  []uint32  `json:"choices"`
	Trace    []TraceEv `json:"trace"`
	RepoRev  string    `json:"repo_rev,omitempty"`
	How      string    `json:"how_to_replay"`
	// Rerun: the run killed the worker process (Go fatal error such as out of
	// memory); it is replayed by running (seed, run) again instead of a choice list.
	Rerun  bool   `json:"rerun,omitempty"`
	Race   bool   `json:"race_build,omitempty"`
	Arch32 bool   `json:"arch32_build,omitempty"`
	Crash  string `json:"crash_output,omitempty"`
}

type knownFinding struct {
	Property string `json:"property"`
	ID       string `json:"id"`
	Status   string `json:"status"` // open | fixed
	Commit   string `json:"commit,omitempty"`
	Clause   string `json:"clause"`
	MsgRegex string `json:"msg_regex,omitempty"`
	What     string `json:"what"`
}

func loadKnown() []knownFinding {
	b, err := os.ReadFile(filepath.Join(verifDir, "known_findings.json"))
	if err != nil {
		return nil
	}
	var k struct {
		Findings []knownFinding `json:"findings"`
	}
	if err := json.Unmarshal(b, &k); err != nil {
		fatal2("known_findings.json: %v", err)
	}
	return k.Findings
}

func matchKnown(ks []knownFinding, id string, v ViolationRec) *knownFinding {
	for i := range ks {
		k := &ks[i]
		if k.Status != "open" || k.Property != id || k.Clause != v.Clause {
			continue
		}
		if k.MsgRegex != "" {
			re, err := regexp.Compile(k.MsgRegex)
			if err != nil || !re.MatchString(v.Msg+"\n"+v.Summary) {
				continue
			}
		}
		return k
	}
	return nil
}

func repoRev() string {
	out, _ := exec.Command("git", "-C", repoDir, "rev-parse", "--short", "HEAD").Output()
	st, _ := exec.Command("git", "-C", repoDir, "status", "--porcelain", "--untracked-files=no").Output()
	r := strings.TrimSpace(string(out))
	if len(bytes.TrimSpace(st)) > 0 {
		r += "+dirty"
	}
	return r
}

type crashInfo struct {
	run    int
	stderr string
	race   bool
	arch32 bool
}

// crashedRun recognises a worker that was killed by the code under test (not
// by the watchdog, not by a timeout) and returns the run it had announced.
func crashedRun(r workerResult) (int, bool) {
	if r.err != nil || r.code == 0 || r.code == 3 || strings.Contains(r.stderr, "watchdog") {
		return 0, false
	}
	const tag = "last announced: RUN "
	i := strings.Index(r.stderr, tag)
	if i < 0 {
		return 0, false
	}
	rest := r.stderr[i+len(tag):]
	if j := strings.IndexByte(rest, '\n'); j >= 0 {
		rest = rest[:j]
	}
	n, err := strconv.Atoi(strings.TrimSpace(rest))
	if err != nil {
		return 0, false
	}
	return n, true
}

type workerResult struct {
	race   bool
	arch32 bool
	out    *Output
	err    error
	stderr string
	code   int
	from   int
}

var raceEnv = []string{"GOMAXPROCS=3", "GORACE=halt_on_error=1 exitcode=66"}

func runWorker(worker string, args []string, timeout time.Duration, extraEnv ...string) (stdout []byte, stderrTail string, code int, err error) {
	cmd := exec.Command(worker, args...)
	cmd.Env = append(env(), extraEnv...)
	var so bytes.Buffer
	se := &tailBuf{max: 1 << 16}
	cmd.Stdout = &so
	cmd.Stderr = se
	if err = cmd.Start(); err != nil {
		return nil, "", 2, err
	}
	done := make(chan error, 1)
	go func() { done <- cmd.Wait() }()
	select {
	case err = <-done:
	case <-time.After(timeout):
		cmd.Process.Kill()
		<-done
		return so.Bytes(), se.String(), 2, fmt.Errorf("worker timed out after %v", timeout)
	}
	code = 0
	if err != nil {
		if ee, ok := err.(*exec.ExitError); ok {
			code = ee.ExitCode()
			err = nil
		} else {
			code = 2
		}
	}
	return so.Bytes(), se.String(), code, err
}

type tailBuf struct {
	mu  sync.Mutex
	b   []byte
	max int
}

func (t *tailBuf) Write(p []byte) (int, error) {
	t.mu.Lock()
	defer t.mu.Unlock()
	t.b = append(t.b, p...)
	if len(t.b) > 2*t.max {
		t.b = append([]byte{}, t.b[len(t.b)-t.max:]...)
	}
	return len(p), nil
}

func (t *tailBuf) String() string {
	t.mu.Lock()
	defer t.mu.Unlock()
	// drop RUN progress lines except the last
	lines := strings.Split(string(t.b), "\n")
	var keep []string
	last := ""
	for _, l := range lines {
		if strings.HasPrefix(l, "RUN ") {
			last = l
			continue
		}
		if l != "" {
			keep = append(keep, l)
		}
	}
	if last != "" {
		keep = append([]string{"last announced: " + last}, keep...)
	}
	if len(keep) > 200 {
		keep = keep[len(keep)-200:]
	}
	return strings.Join(keep, "\n")
}

func main() {
	if len(os.Args) < 2 {
		fmt.Fprintln(os.Stderr, "usage: vcheck <ID> [--tier quick|thorough] | vcheck replay <file> | vcheck selftest determinism [ID...]")
		os.Exit(2)
	}
	defer cleanup()
	sigc := make(chan os.Signal, 1)
	signal.Notify(sigc, syscall.SIGINT, syscall.SIGTERM, syscall.SIGHUP, syscall.SIGPIPE)
	go func() {
		<-sigc
		cleanup()
		os.Exit(2)
	}()
	switch os.Args[1] {
	case "replay":
		if len(os.Args) < 3 {
			fatal2("usage: vcheck replay <file>")
		}
		os.Exit(doReplay(os.Args[2]))
	case "selftest":
		if len(os.Args) > 2 && os.Args[2] == "seeded" {
			os.Exit(selftestSeeded(os.Args[3:]))
		}
		if len(os.Args) > 2 && os.Args[2] == "channels" {
			os.Exit(selftestChannels())
		}
		if len(os.Args) > 2 && os.Args[2] == "variants" {
			os.Exit(selftestVariants(os.Args[3:]))
		}
		if len(os.Args) > 2 && os.Args[2] == "passthrough" {
			os.Exit(selftestPassthrough())
		}
		os.Exit(selftest(os.Args[2:]))
	}
	id := os.Args[1]
	tier := os.Getenv("VERIF_TIER")
	workers := 0
	wallOverride := 0.0
	for i := 2; i < len(os.Args); i++ {
		switch os.Args[i] {
		case "--tier":
			i++
			tier = os.Args[i]
		case "--workers":
			i++
			workers, _ = strconv.Atoi(os.Args[i])
		case "--wall":
			i++
			wallOverride, _ = strconv.ParseFloat(os.Args[i], 64)
		}
	}
	if tier == "" {
		tier = "quick"
	}
	if tier != "quick" && tier != "thorough" {
		fatal2("unknown tier %q", tier)
	}
	code := check(id, tier, workers, wallOverride)
	cleanup()
	os.Exit(code)
}

func seedFromEnv() uint64 {
	s := os.Getenv("VERIF_SEED")
	if s == "" {
		return 1
	}
	v, err := strconv.ParseInt(s, 10, 64)
	if err != nil {
		// any string is a seed
		h := uint64(1469598103934665603)
		for _, c := range []byte(s) {
			h = (h ^ uint64(c)) * 1099511628211
		}
		return h >> 1
	}
	return uint64(v)
}

func check(id, tier string, workers int, wallOverride float64) int {
	cfg, ok := props[id]
	if !ok {
		fatal2("property %s has no check (see MANIFEST.json not_applicable)", id)
	}
	seed := seedFromEnv()
	start := time.Now()
	fmt.Printf("vcheck: property=%s tier=%s seed=%d repo=%s\n", id, tier, seed, repoRev())
	scratch, worker := prepare(id, cfg.Tags, false)
	buildS := time.Since(start).Seconds()
	wall := cfg.QuickWall
	if workers == 0 {
		workers = 8
	}
	if tier == "thorough" {
		wall = cfg.ThoroughSec
		if os.Getenv("VERIF_THOROUGH_SEC") != "" {
			wall, _ = strconv.ParseFloat(os.Getenv("VERIF_THOROUGH_SEC"), 64)
		}
		workers = runtime.NumCPU()
		if workers > 16 {
			workers = 16
		}
	}
	if wallOverride > 0 {
		wall = wallOverride
	}
	fmt.Printf("vcheck: built instrumented simulator in %.1fs; %d workers x %.0fs\n", buildS, workers, wall)

	raceWorkers := 0
	if cfg.RaceWorld != "" {
		// race-mode batch: a -race build of the same instrumented copy, spin baton,
		// oracle = the Go race detector; each worker spins on up to 3 Ps
		raceWorkers = 3
		if tier == "thorough" {
			raceWorkers = 4
		}
		if workers > 6 {
			workers -= raceWorkers
		}
	}
	arch32Workers := 0
	if cfg.Arch32 && os.Getenv("VERIF_NO_ARCH32") == "" {
		arch32Workers = 1
		if workers > 6 {
			workers--
		}
	}
	results := make([]workerResult, workers+raceWorkers+arch32Workers)
	var wg sync.WaitGroup
	searchStart := time.Now()
	for i := 0; i < workers; i++ {
		wg.Add(1)
		go func(i int) {
			defer wg.Done()
			from := i * 100_000_000
			hf := filepath.Join(scratch, fmt.Sprintf("hashes.%d", i))
			wname := cfg.World
			if cfg.ExtraWorld != "" && i >= workers-2 && workers > 2 {
				wname = cfg.ExtraWorld
			}
			args := []string{"-world", wname, "-prop", id, "-seed", strconv.FormatUint(seed, 10),
				"-from", strconv.Itoa(from), "-to", strconv.Itoa(from + 99_000_000), "-wall", fmt.Sprintf("%.1f", wall), "-hashes", hf}
			if tier == "thorough" && i%2 == 1 {
				// half of the thorough workers explore wider bounds
				args = append(args, "-deep")
			}
			so, se, code, err := runWorker(worker, args, time.Duration(wall*float64(time.Second))+150*time.Second)
			r := workerResult{stderr: se, code: code, err: err, from: from}
			if err == nil && (code == 0 || code == 3) {
				var o Output
				if e := json.Unmarshal(so, &o); e != nil {
					r.err = fmt.Errorf("unreadable worker output: %v", e)
				} else {
					r.out = &o
				}
			}
			results[i] = r
		}(i)
	}
	var raceWorker string
	var raceBuildErr error
	var raceBuildOut []byte
	raceReady := make(chan struct{})
	if raceWorkers > 0 {
		go func() {
			raceWorker, raceBuildOut, raceBuildErr = buildWorker(scratch, cfg.Tags, true)
			close(raceReady)
		}()
	}
	for j := 0; j < raceWorkers; j++ {
		wg.Add(1)
		go func(j int) {
			defer wg.Done()
			i := workers + j
			<-raceReady
			if raceBuildErr != nil {
				results[i] = workerResult{race: true, err: fmt.Errorf("race build failed: %v\n%s", raceBuildErr, raceBuildOut), code: 2}
				return
			}
			left := wall - time.Since(searchStart).Seconds()
			if left < 10 {
				left = 10
			}
			from := i * 100_000_000
			args := []string{"-world", cfg.RaceWorld, "-prop", id, "-seed", strconv.FormatUint(seed, 10),
				"-from", strconv.Itoa(from), "-to", strconv.Itoa(from + 99_000_000), "-wall", fmt.Sprintf("%.1f", left)}
			so, se, code, err := runWorker(raceWorker, args, time.Duration(left*float64(time.Second))+150*time.Second, raceEnv...)
			r := workerResult{race: true, stderr: se, code: code, err: err, from: from}
			if err == nil && (code == 0 || code == 3) {
				var o Output
				if e := json.Unmarshal(so, &o); e != nil {
					r.err = fmt.Errorf("unreadable worker output: %v", e)
				} else {
					r.out = &o
				}
			}
			results[i] = r
		}(j)
	}
	var arch32Worker string
	if arch32Workers > 0 {
		wg.Add(1)
		go func() {
			defer wg.Done()
			i := workers + raceWorkers
			w32, bout, berr := buildWorkerFor(scratch, cfg.Tags, false, "386")
			arch32Worker = w32
			if berr != nil {
				results[i] = workerResult{arch32: true, err: fmt.Errorf("GOARCH=386 build failed: %v\n%s", berr, bout), code: 2}
				return
			}
			left := wall - time.Since(searchStart).Seconds()
			if left < 10 {
				left = 10
			}
			from := i * 100_000_000
			args := []string{"-world", cfg.World, "-prop", id, "-seed", strconv.FormatUint(seed, 10),
				"-from", strconv.Itoa(from), "-to", strconv.Itoa(from + 99_000_000), "-wall", fmt.Sprintf("%.1f", left)}
			so, se, code, err := runWorker(w32, args, time.Duration(left*float64(time.Second))+150*time.Second)
			r := workerResult{arch32: true, stderr: se, code: code, err: err, from: from}
			if err == nil && (code == 0 || code == 3) {
				var o Output
				if e := json.Unmarshal(so, &o); e != nil {
					r.err = fmt.Errorf("unreadable worker output: %v", e)
				} else {
					r.out = &o
				}
			}
			results[i] = r
		}()
	}
	wg.Wait()

	// aggregate
	agg := Stats{Strategies: map[string]int{}, Faults: map[string]int{}, Probes: map[string]int{}, SitesHit: map[string]int{}, SitesTotal: map[string]int{}}
	var viols []ViolationRec
	var crashes []crashInfo
	raceRuns, raceSteps := 0, int64(0)
	arch32Runs, arch32Steps := 0, int64(0)
	findingClause := map[string]bool{}
	var realC, stubC []string
	infra := false
	for i, r := range results {
		if r.err != nil || r.out == nil || (r.code != 0 && r.code != 3) {
			if run, ok := crashedRun(r); ok {
				crashes = append(crashes, crashInfo{run, r.stderr, r.race, r.arch32})
				fmt.Fprintf(os.Stderr, "vcheck: worker %d died during run %d; will try to reproduce\n", i, run)
				continue
			}
			if r.arch32 && (r.code == 2 || strings.Contains(fmt.Sprint(r.err), "exec format error") || strings.Contains(fmt.Sprint(r.err), "GOARCH=386 build failed")) && os.Getenv("VERIF_ARCH32_STRICT") == "" {
				// an environment that cannot build or run 32-bit binaries: the batch is an extra,
				// its absence is reported, not turned into a failure of the check
				fmt.Fprintf(os.Stderr, "vcheck: 32-bit batch not available here, skipped (%v)\n%s\n", r.err, r.stderr)
				arch32Workers = 0
				continue
			}
			fmt.Fprintf(os.Stderr, "vcheck: worker %d failed (exit %d, %v)\n%s\n", i, r.code, r.err, r.stderr)
			infra = true
			continue
		}
		if r.code == 3 {
			infra = true
			fmt.Fprintf(os.Stderr, "vcheck: worker %d saw a violation that did not replay deterministically in-process; this is a defect of the machinery, nothing is reported as a violation\n", i)
		}
		o := r.out
		if r.race {
			raceRuns += o.Stats.Runs
			raceSteps += o.Stats.Steps
			viols = append(viols, o.Violations...)
			continue
		}
		if r.arch32 {
			arch32Runs += o.Stats.Runs
			arch32Steps += o.Stats.Steps
			for _, v := range o.Violations {
				v.Arch32 = true
				viols = append(viols, v)
			}
			continue
		}
		realC, stubC = unionStr(realC, o.Real), unionStr(stubC, o.Stub)
		agg.Runs += o.Stats.Runs
		agg.Nontrivial += o.Stats.Nontrivial
		agg.Steps += o.Stats.Steps
		agg.SimTimeNs += o.Stats.SimTimeNs
		agg.Switches += o.Stats.Switches
		agg.Truncated += o.Stats.Truncated
		agg.Stuck += o.Stats.Stuck
		for k, v := range o.Stats.Strategies {
			agg.Strategies[k] += v
		}
		for k, v := range o.Stats.Faults {
			agg.Faults[k] += v
		}
		for k, v := range o.Stats.Probes {
			agg.Probes[k] += v
		}
		for k, v := range o.Stats.SitesHit {
			if v > agg.SitesHit[k] {
				agg.SitesHit[k] = v
			}
			agg.SitesTotal[k] = o.Stats.SitesTotal[k]
		}
		if i == 0 {
			agg.Samples = o.Stats.Samples
		}
		viols = append(viols, o.Violations...)
		for _, f := range o.Findings {
			if !findingClause[f.Clause] {
				findingClause[f.Clause] = true
				viols = append(viols, f)
			}
		}
	}
	distinct := map[uint64]struct{}{}
	for i := 0; i < workers; i++ {
		b, err := os.ReadFile(filepath.Join(scratch, fmt.Sprintf("hashes.%d", i)))
		if err != nil {
			continue
		}
		for j := 0; j+8 <= len(b); j += 8 {
			distinct[binary.LittleEndian.Uint64(b[j:])] = struct{}{}
		}
	}

	// violations: confirm in a fresh process, classify
	known := loadKnown()
	exit := 0
	nviol := 0
	var knownLines []string
	seenClause := map[string]bool{}
	sort.SliceStable(viols, func(i, j int) bool { return len(viols[i].Choices) < len(viols[j].Choices) })
	for _, v := range viols {
		if !v.Stable {
			fmt.Fprintf(os.Stderr, "vcheck: not reproducible in-process (machinery defect, not reported as a violation): run=%d clause=%s %s\n", v.Run, v.Clause, v.Msg)
			continue
		}
		rf := ReplayFile{Property: id, World: v.World, Seed: v.Seed, Run: v.Run, Clause: v.Clause, Msg: v.Msg, Summary: v.Summary, Choices: v.Choices, Trace: v.Trace, RepoRev: repoRev(), Arch32: v.Arch32,
			How: "cd /verif && bin/vcheck replay <this file>   (rebuilds from /repo's working tree; exit 1 = the violation reproduces)"}
		cw := worker
		if v.Arch32 {
			cw = arch32Worker
			rf.Msg = "[GOARCH=386 build] " + rf.Msg
			v.Msg = rf.Msg
		}
		os.MkdirAll(filepath.Join(verifDir, "replays"), 0o755)
		path := filepath.Join(verifDir, "replays", fmt.Sprintf("%s-%d-%d.json", id, v.Seed, v.Run))
		b, _ := json.MarshalIndent(rf, "", " ")
		if err := os.WriteFile(path, b, 0o644); err != nil {
			fatal2("%v", err)
		}
		// confirm twice in fresh processes
		ok := true
		var h0 string
		for k := 0; k < 2; k++ {
			so, se, code, err := runWorker(cw, []string{"-world", v.World, "-prop", id, "-replay", path}, 120*time.Second)
			var rep struct {
				Clause string `json:"clause"`
				Hash   string `json:"hash"`
			}
			json.Unmarshal(so, &rep)
			if err != nil || code != 1 || rep.Clause != v.Clause || (k == 1 && rep.Hash != h0) {
				ok = false
				fmt.Fprintf(os.Stderr, "vcheck: replay %d of %s did not reproduce (exit %d, clause %q, want %q)\n%s\n", k, path, code, rep.Clause, v.Clause, se)
			}
			h0 = rep.Hash
		}
		if !ok {
			infra = true
			os.Remove(path)
			continue
		}
		if k := matchKnown(known, id, v); k != nil {
			knownLines = append(knownLines, fmt.Sprintf("KNOWN-FINDING: property=%s %s (%s)", id, k.What, k.ID))
			os.Remove(path)
			continue
		}
		nviol++
		exit = 1
		if !seenClause[v.Clause] {
			seenClause[v.Clause] = true
			fmt.Printf("violation: clause=%s run=%d choices=%d (shrunk from %d in %d runs)\n  %s\n  case: %s\n", v.Clause, v.Run, len(v.Choices), v.OrigLen, v.ShrinkRuns, v.Msg, v.Summary)
		}
		fmt.Printf("VIOLATION property=%s replay=%s\n", id, path)
	}
	for _, c := range crashes {
		// a run that kills the process (Go fatal errors cannot be recovered) is
		// reproduced twice in fresh processes before it is reported
		died := 0
		var tailOut string
		w, wname, xenv := worker, cfg.World, []string(nil)
		if c.race {
			w, wname, xenv = raceWorker, cfg.RaceWorld, raceEnv
		}
		if c.arch32 {
			w = arch32Worker
		}
		for k := 0; k < 2; k++ {
			_, se, code, err := runWorker(w, []string{"-world", wname, "-prop", id, "-seed", strconv.FormatUint(seed, 10), "-from", strconv.Itoa(c.run), "-to", strconv.Itoa(c.run + 1), "-wall", "600"}, 400*time.Second, xenv...)
			if err == nil && code != 0 && code != 3 && !strings.Contains(se, "watchdog") {
				died++
				tailOut = se
			}
		}
		if died < 2 {
			fmt.Fprintf(os.Stderr, "vcheck: the worker death during run %d did not reproduce (%d of 2); treating it as infrastructure trouble\n%s\n", c.run, died, c.stderr)
			infra = true
			continue
		}
		lines := strings.Split(originalLines(scratch, tailOut), "\n")
		if len(lines) > 60 {
			lines = lines[:60]
		}
		clause, msg := "process_crash", "the run kills the process (unrecoverable Go runtime error)"
		if strings.Contains(tailOut, "DATA RACE") {
			clause, msg = "data_race", "the Go race detector reports a data race on this simulated schedule (race-mode build: only the happens-before edges created by the code under test are visible to it)"
		}
		rf := ReplayFile{Property: id, World: wname, Seed: seed, Run: c.run, Clause: clause, Msg: msg, Rerun: true, Race: c.race, Arch32: c.arch32, Crash: strings.Join(lines, "\n"), RepoRev: repoRev(),
			How: "cd /verif && bin/vcheck replay <this file>   (rebuilds from /repo's working tree and runs (seed, run) again; exit 1 = the process dies again)"}
		os.MkdirAll(filepath.Join(verifDir, "replays"), 0o755)
		path := filepath.Join(verifDir, "replays", fmt.Sprintf("%s-%d-%d.json", id, seed, c.run))
		b, _ := json.MarshalIndent(rf, "", " ")
		os.WriteFile(path, b, 0o644)
		nviol++
		exit = 1
		fmt.Printf("violation: clause=%s run=%d: %s:\n  %s\n", clause, c.run, msg, strings.Join(lines[:min(len(lines), 30)], "\n  "))
		fmt.Printf("VIOLATION property=%s replay=%s\n", id, path)
	}
	sort.Strings(knownLines)
	prev := ""
	for _, l := range knownLines {
		if l != prev {
			fmt.Println(l)
		}
		prev = l
	}

	wallS := time.Since(start).Seconds()
	unreached := []string{}
	for _, p := range wantProbes[id] {
		if agg.Probes[p] == 0 && agg.Faults[p] == 0 {
			unreached = append(unreached, p)
		}
	}
	arch32Evidence = map[string]interface{}{"workers": arch32Workers, "runs": arch32Runs, "steps": arch32Steps, "world": cfg.World,
		"note": "the same world and oracles in a worker built with GOARCH=386 (32-bit int and pointer width, 64-bit atomics need 8-byte alignment); its runs are not counted in the totals above"}
	if agg.Runs > 0 && os.Getenv("VERIF_NO_EVIDENCE") == "" {
		writeEvidence(id, tier, seed, cfg, agg, len(distinct), nviol, wallS, buildS, workers, realC, stubC, unreached, len(knownLines), raceRuns, raceSteps, raceWorkers)
	}
	fmt.Printf("vcheck: %s %s: %d runs (%d non-trivial, %d distinct), %d steps, %.1fs simulated, %d truncated, violations=%d known=%d, %.1fs wall\n",
		id, tier, agg.Runs, agg.Nontrivial, len(distinct), agg.Steps, float64(agg.SimTimeNs)/1e9, agg.Truncated, nviol, len(knownLines), wallS)
	if arch32Workers > 0 {
		fmt.Printf("vcheck: %s 32-bit batch (%s, GOARCH=386 build): %d runs, %d steps on 1 worker\n", id, cfg.World, arch32Runs, arch32Steps)
	}
	if raceWorkers > 0 {
		fmt.Printf("vcheck: %s race mode (%s, -race build): %d runs, %d steps on %d workers\n", id, cfg.RaceWorld, raceRuns, raceSteps, raceWorkers)
	}
	if len(unreached) > 0 {
		fmt.Printf("vcheck: probes not reached in this run: %v\n", unreached)
	}
	if exit == 1 {
		return 1
	}
	if infra {
		return 2
	}
	return 0
}

// wantProbes lists, per property, the rare conditions the workload must reach
// for a clean batch to mean something (reported as "unreached" in the evidence).
var wantProbes = map[string][]string{
	"C10": {"cas_failed", "collision_retry", "alert", "sink_stall_forever", "reentrant_alert_write", "pool_reuse_other_task"},
	"C11": {"cas_failed", "collision_retry", "alert", "sink_slow", "two_closers", "fatal_filtered", "sink_fails_from_now_on", "nil_alerter", "fatal_with_logging_error_handler", "fatal_with_failing_sibling_close", "recovered_panic_event"},
	"C12": {"cas_failed", "cond_broadcast_no_waiter", "cond_broadcast_woke", "mutex_contended", "never_written", "sink_goexit", "nested_close", "long_burst", "write_after_long_quiet_period", "big_ring_nearly_full"},
	"C05": {"pool_reuse_other_task", "pool_miss", "open_events_overlap", "pool_non_lifo", "late_update_context", "stateful_sampler", "context_value_used_twice", "output_nil", "logger_variable_reused", "sample_nil", "stack_before_marshaler_installed", "go_context_detached", "tiny_context_after_reset", "update_of_default_context_logger"},
	"C13": {"linearizable_histories", "clock_backwards", "clock_jump_forward", "clock_frozen", "sampling_disabled_phase", "level_rejected_event", "huge_burst", "derived_while_sampling_disabled", "timestamp_func_replaced", "fatal_through_sampler", "long_sampler_chain"},
	"C14": {"dst_error", "dst_short_write", "sync_wrapped_destination", "sync_wrapped_fanout", "fanout_plain_write", "caller_slice_reused", "panic_event", "filter_level_changed", "error_handler_nil", "event_through_logger_write"},
	"C15": {"linearizable_histories", "mutex_contended", "pool_reuse", "dst_blocks", "dst_error", "huge_line", "writer_field_reassigned"},
	"C17": {"crash_point", "bit_flip", "header_overwrite", "huge_length", "zeroed_range", "dropped_range", "duplicated_tail", "garbage_tail", "read_error", "dst_error", "deep_nesting", "special_value", "tag_sweep", "read_error_at_cut", "nested_embedding"},
	"C18": {"rw_first_write_fails", "handler_panics", "base_context_logger", "rw_short_write", "rw_error", "rw_partial_then_error", "pool_reuse_other_task", "request_context_cancelled", "two_access_handlers", "per_request_hook", "zero_length_write", "default_context_logger_is_parent", "event_after_request_returned", "io_write_string", "base_context_logger_is_parent"},
	"C06": {"discard_then_finalize", "sink_panics", "package_level_helpers", "sink_closed", "derived_in_task", "sink_short_write", "hook_discards_event", "pool_reuse_other_task", "pool_miss", "pool_drop", "sink_overlap", "two_events_open", "sink_blocks_in_write", "sink_error", "global_level_flip", "sampling_switch_flip", "logger_from_context", "console_formatter_refuses", "panic_level_event", "mutex_contended"},
}

// unionStr appends the strings of b that a does not have yet (workers of the main
// world and of the extra world report different component lists).
func unionStr(a, b []string) []string {
	for _, x := range b {
		found := false
		for _, y := range a {
			if x == y {
				found = true
				break
			}
		}
		if !found {
			a = append(a, x)
		}
	}
	return a
}

// arch32Evidence describes the GOARCH=386 batch of the current check (set before writeEvidence).
var arch32Evidence = map[string]interface{}{"workers": 0}

func writeEvidence(id, tier string, seed uint64, cfg propCfg, st Stats, distinct, nviol int, wallS, buildS float64, workers int, realC, stubC, unreached []string, nknown int, raceRuns int, raceSteps int64, raceWorkers int) {
	samples := []interface{}{}
	for _, s := range st.Samples {
		samples = append(samples, s)
	}
	if len(samples) == 0 {
		samples = append(samples, map[string]string{"note": "no non-trivial run in worker 0"})
	}
	searchS := wallS - buildS
	rph := 0.0
	if searchS > 0 {
		rph = float64(st.Runs) / searchS * 3600
	}
	ev := map[string]interface{}{
		"property_id": id,
		"tier":        tier,
		"seed":        int64(seed),
		"level":       cfg.Level,
		"coverage": map[string]interface{}{
			"evaluations":         st.Runs,
			"distinct_nontrivial": distinct,
			"rule":                cfg.Rule,
			"samples":             samples,
			"runs_per_hour":       int64(rph),
			"workers":             workers,
			"sim_time_ns":         st.SimTimeNs,
			"steps":               st.Steps,
			"preemptive_switches": st.Switches,
			"strategies":          st.Strategies,
			"faults_fired":        st.Faults,
			"probes":              st.Probes,
			"unreached":           unreached,
			"truncated_runs":      st.Truncated,
			"stuck_end_states":    st.Stuck,
			"sites_hit":           st.SitesHit,
			"sites_total":         st.SitesTotal,
			"components":          map[string]interface{}{"real": realC, "stub": stubC},
			"known_findings_seen": nknown,
			"race_mode":           map[string]interface{}{"world": cfg.RaceWorld, "workers": raceWorkers, "runs": raceRuns, "steps": raceSteps, "note": "runs of the -race build (spin baton); oracle: Go race detector, halt on first report"},
			"arch32_mode":         arch32Evidence,
			"build_s":             buildS,
			"repo_rev":            repoRev(),
		},
		"assumptions": append(append([]string{}, baseAssumptions...), cfg.Assumptions...),
		"wall_s":      wallS,
		"violations":  nviol,
	}
	os.MkdirAll(filepath.Join(verifDir, "evidence"), 0o755)
	b, _ := json.MarshalIndent(ev, "", " ")
	if err := os.WriteFile(filepath.Join(verifDir, "evidence", id+".json"), b, 0o644); err != nil {
		fatal2("%v", err)
	}
}

func doReplay(file string) int {
	b, err := os.ReadFile(file)
	if err != nil {
		fatal2("%v", err)
	}
	var rf ReplayFile
	if err := json.Unmarshal(b, &rf); err != nil {
		fatal2("%s: %v", file, err)
	}
	cfg, ok := props[rf.Property]
	if !ok {
		fatal2("replay file names unknown property %q", rf.Property)
	}
	abs, _ := filepath.Abs(file)
	_, worker := prepare(rf.Property, cfg.Tags, false)
	if rf.Arch32 {
		w32, out, err := buildWorkerFor(filepath.Dir(worker), cfg.Tags, false, "386")
		if err != nil {
			fatal2("GOARCH=386 build failed: %v\n%s", err, out)
		}
		worker = w32
	}
	if rf.Rerun {
		var xenv []string
		if rf.Race {
			rw, out, err := buildWorker(filepath.Dir(worker), cfg.Tags, true)
			if err != nil {
				fatal2("race build failed: %v\n%s", err, out)
			}
			worker, xenv = rw, raceEnv
		}
		so, se, code, err := runWorker(worker, []string{"-world", rf.World, "-prop", rf.Property, "-seed", strconv.FormatUint(rf.Seed, 10), "-from", strconv.Itoa(rf.Run), "-to", strconv.Itoa(rf.Run + 1), "-wall", "600"}, 400*time.Second, xenv...)
		se = originalLines(filepath.Dir(worker), se)
		if err == nil && code != 0 && code != 3 && !strings.Contains(se, "watchdog") {
			fmt.Printf("replay: the process died again:\n%s\n", se)
			fmt.Printf("VIOLATION property=%s replay=%s\n", rf.Property, abs)
			return 1
		}
		var o Output
		if json.Unmarshal(so, &o) == nil && len(o.Violations) > 0 {
			fmt.Printf("replay: the run no longer kills the process but violates %s: %s\n", o.Violations[0].Clause, o.Violations[0].Msg)
			fmt.Printf("VIOLATION property=%s replay=%s\n", rf.Property, abs)
			return 1
		}
		if err != nil || code != 0 {
			fmt.Fprintf(os.Stderr, "replay: worker trouble (exit %d, %v)\n%s\n", code, err, se)
			return 2
		}
		fmt.Printf("replay: run %d completes without violation on the current tree\n", rf.Run)
		return 0
	}
	so, se, code, err := runWorker(worker, []string{"-world", rf.World, "-prop", rf.Property, "-replay", abs}, 300*time.Second)
	if err != nil {
		fatal2("replay worker: %v\n%s", err, se)
	}
	var rep struct {
		Clause   string    `json:"clause"`
		Msg      string    `json:"msg"`
		Hash     string    `json:"hash"`
		Diverged bool      `json:"diverged"`
		Trace    []TraceEv `json:"trace"`
	}
	json.Unmarshal(so, &rep)
	for _, t := range rep.Trace {
		fmt.Printf("%5d %9dns %-8s %s\n", t.Step, t.Now, t.Task, t.What)
	}
	switch code {
	case 1:
		fmt.Printf("replay: violation reproduced: clause=%s\n  %s\n", rep.Clause, rep.Msg)
		if rep.Clause != rf.Clause {
			fmt.Printf("replay: note: the recorded clause was %s\n", rf.Clause)
		}
		fmt.Printf("VIOLATION property=%s replay=%s\n", rf.Property, abs)
		return 1
	case 0:
		fmt.Printf("replay: no violation on the current tree (recorded: %s)\n", rf.Clause)
		return 0
	}
	fmt.Fprintf(os.Stderr, "replay: the choice list no longer fits the program (diverged) or the worker failed (exit %d)\n%s\n", code, se)
	return 2
}
