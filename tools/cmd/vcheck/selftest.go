package main

import (
	"bytes"
	"encoding/json"
	"fmt"
	"io/fs"
	"os"
	"os/exec"
	"path/filepath"
	"regexp"
	"sort"
	"strconv"
	"strings"
	"sync"

	"verif/tools/instr"
)

// selftest determinism: the same (seed, run index) must give the same event log
// in every process, at every GOMAXPROCS. 33 processes per property
// (11 at each of GOMAXPROCS 1, 4, 16), 300 runs each, full per-run log lines
// (trace hash over every scheduling decision, steps, number of choices,
// verdict) compared byte for byte.
func selftest(args []string) int {
	if len(args) == 0 || args[0] != "determinism" {
		fmt.Fprintln(os.Stderr, "usage: vcheck selftest determinism [ID...]")
		return 2
	}
	ids := args[1:]
	if len(ids) == 0 {
		for id := range props {
			ids = append(ids, id)
		}
		sort.Strings(ids)
	}
	seed := seedFromEnv()
	bad := 0
	for _, id := range ids {
		cfg, ok := props[id]
		if !ok {
			fmt.Fprintf(os.Stderr, "unknown property %s\n", id)
			return 2
		}
		scratch, worker := prepare(id, cfg.Tags, false)
		type job struct {
			procs, k int
			file     string
		}
		var jobs []job
		for _, gp := range []int{1, 4, 16} {
			for k := 0; k < 11; k++ {
				jobs = append(jobs, job{gp, k, filepath.Join(scratch, fmt.Sprintf("ev.%d.%d", gp, k))})
			}
		}
		var wg sync.WaitGroup
		sem := make(chan struct{}, 12)
		errs := make([]error, len(jobs))
		for i, j := range jobs {
			wg.Add(1)
			go func(i int, j job) {
				defer wg.Done()
				sem <- struct{}{}
				defer func() { <-sem }()
				cmd := exec.Command(worker, "-world", cfg.World, "-prop", id, "-seed", strconv.FormatUint(seed, 10), "-from", "0", "-to", "300", "-wall", "600", "-maxviol", "1000000", "-noshrink", "-eventlog", j.file)
				cmd.Env = append(env(), "GOMAXPROCS="+strconv.Itoa(j.procs))
				out, err := cmd.CombinedOutput()
				if err != nil {
					if ee, ok := err.(*exec.ExitError); !ok || (ee.ExitCode() != 0 && ee.ExitCode() != 3) {
						errs[i] = fmt.Errorf("%v: %s", err, tail(out, 2000))
					}
				}
			}(i, j)
		}
		wg.Wait()
		var ref []byte
		okAll := true
		for i, j := range jobs {
			if errs[i] != nil {
				fmt.Printf("selftest determinism %s: worker GOMAXPROCS=%d #%d failed: %v\n", id, j.procs, j.k, errs[i])
				okAll = false
				continue
			}
			b, err := os.ReadFile(j.file)
			if err != nil || len(b) == 0 {
				fmt.Printf("selftest determinism %s: no event log from GOMAXPROCS=%d #%d\n", id, j.procs, j.k)
				okAll = false
				continue
			}
			if ref == nil {
				ref = b
				continue
			}
			if !bytes.Equal(ref, b) {
				okAll = false
				rl, bl := bytes.Split(ref, []byte("\n")), bytes.Split(b, []byte("\n"))
				for k := 0; k < len(rl) && k < len(bl); k++ {
					if !bytes.Equal(rl[k], bl[k]) {
						fmt.Printf("selftest determinism %s: GOMAXPROCS=%d #%d diverges at run line %d:\n  ref: %s\n  got: %s\n", id, j.procs, j.k, k, rl[k], bl[k])
						break
					}
				}
			}
		}
		n := bytes.Count(ref, []byte("\n"))
		if okAll {
			fmt.Printf("selftest determinism %s: OK (%d processes x %d runs, identical event logs)\n", id, len(jobs), n)
		} else {
			bad++
		}
		cleanup()
	}
	if bad > 0 {
		return 2
	}
	return 0
}

func tail(b []byte, n int) string {
	if len(b) > n {
		b = b[len(b)-n:]
	}
	return string(b)
}

// selftest seeded: sensitivity. Every kept breaking change under seeded/ is
// applied to a scratch copy of /repo (never to /repo itself) and the owning
// check, run against that copy with a small budget, must report a VIOLATION.
func selftestSeeded(ids []string) int {
	dir := filepath.Join(verifDir, "seeded")
	ents, err := os.ReadDir(dir)
	if err != nil {
		fmt.Fprintln(os.Stderr, err)
		return 2
	}
	want := map[string]bool{}
	for _, id := range ids {
		want[id] = true
	}
	exe, _ := os.Executable()
	missed := 0
	wall := os.Getenv("VERIF_SEEDED_WALL")
	if wall == "" {
		wall = "12"
	}
	clauseRe := regexp.MustCompile(`violation: clause=(\S+)`)
	for _, e := range ents {
		if !e.IsDir() || (len(want) > 0 && !want[e.Name()]) {
			continue
		}
		var meta struct {
			Property string `json:"property"`
		}
		b, err := os.ReadFile(filepath.Join(dir, e.Name(), "meta.json"))
		if err != nil || json.Unmarshal(b, &meta) != nil || meta.Property == "" {
			continue
		}
		tmp, err := os.MkdirTemp("", "verif-seeded-"+e.Name()+"-")
		if err != nil {
			fmt.Fprintln(os.Stderr, err)
			return 2
		}
		err = copyTree("/repo", tmp, func(rel string, d fs.DirEntry) bool {
			return d.IsDir() && (rel == ".git" || rel == "cmd")
		})
		if err == nil {
			cmd := exec.Command("git", "apply", filepath.Join(dir, e.Name(), "patch.diff"))
			cmd.Dir = tmp
			var out []byte
			out, err = cmd.CombinedOutput()
			if err != nil {
				err = fmt.Errorf("git apply: %v: %s", err, out)
			}
		}
		if err != nil {
			fmt.Printf("%-8s %s: cannot prepare: %v\n", e.Name(), meta.Property, err)
			os.RemoveAll(tmp)
			missed++
			continue
		}
		cmd := exec.Command(exe, meta.Property, "--wall", wall)
		cmd.Env = append(os.Environ(), "VERIF_REPO="+tmp, "VERIF_DIR="+verifDir, "VERIF_NO_EVIDENCE=1")
		out, _ := cmd.CombinedOutput()
		os.RemoveAll(tmp)
		code := cmd.ProcessState.ExitCode()
		clause := ""
		if m := clauseRe.FindSubmatch(out); m != nil {
			clause = string(m[1])
		}
		status := "caught"
		if code != 1 || !strings.Contains(string(out), "VIOLATION property="+meta.Property) {
			status = fmt.Sprintf("MISSED (exit %d)", code)
			missed++
		}
		fmt.Printf("%-8s %s: %s %s\n", e.Name(), meta.Property, status, clause)
		if code != 1 && code != 0 {
			// machinery trouble on a patched copy: show what the check printed
			fmt.Printf("---- output of the check (exit %d) ----\n%s\n----\n", code, tail(out, 6000))
		}
	}
	// replay files written by these runs describe patched copies, not /repo
	if fs, _ := filepath.Glob(filepath.Join(verifDir, "replays", "*.json")); len(fs) > 0 && os.Getenv("VERIF_KEEP_REPLAYS") == "" {
		for _, f := range fs {
			os.Remove(f)
		}
	}
	if missed > 0 {
		fmt.Printf("selftest seeded: %d change(s) not caught\n", missed)
		return 1
	}
	fmt.Println("selftest seeded: every kept change is caught")
	return 0
}

// selftest variants: specificity. Every kept property-PRESERVING re-implementation
// under variants/ (written by sub-agents who saw only the property text; different
// primitives, timing, step counts, memory management) is applied to a scratch copy of
// /repo and the owning check, run against that copy, must stay silent: exit 0 and no
// VIOLATION line.
func selftestVariants(ids []string) int {
	dir := filepath.Join(verifDir, "variants")
	ents, err := os.ReadDir(dir)
	if err != nil {
		fmt.Fprintln(os.Stderr, err)
		return 2
	}
	want := map[string]bool{}
	for _, id := range ids {
		want[id] = true
	}
	exe, _ := os.Executable()
	wall := os.Getenv("VERIF_SEEDED_WALL")
	if wall == "" {
		wall = "30"
	}
	alarms := 0
	for _, e := range ents {
		if !e.IsDir() || (len(want) > 0 && !want[e.Name()]) {
			continue
		}
		var meta struct {
			Property  string `json:"property"`
			Only64bit bool   `json:"only_64bit"` // the change itself breaks on 32-bit platforms (the 32-bit batch says so, rightly)
		}
		b, err := os.ReadFile(filepath.Join(dir, e.Name(), "meta.json"))
		if err != nil || json.Unmarshal(b, &meta) != nil || meta.Property == "" {
			continue
		}
		tmp, err := os.MkdirTemp("", "verif-variant-"+e.Name()+"-")
		if err != nil {
			fmt.Fprintln(os.Stderr, err)
			return 2
		}
		err = copyTree("/repo", tmp, func(rel string, d fs.DirEntry) bool {
			return d.IsDir() && (rel == ".git" || rel == "cmd")
		})
		if err == nil {
			cmd := exec.Command("git", "apply", filepath.Join(dir, e.Name(), "patch.diff"))
			cmd.Dir = tmp
			var out []byte
			out, err = cmd.CombinedOutput()
			if err != nil {
				err = fmt.Errorf("git apply: %v: %s", err, out)
			}
		}
		if err != nil {
			fmt.Printf("%-8s %s: cannot prepare: %v\n", e.Name(), meta.Property, err)
			os.RemoveAll(tmp)
			alarms++
			continue
		}
		cmd := exec.Command(exe, meta.Property, "--wall", wall)
		cmd.Env = append(os.Environ(), "VERIF_REPO="+tmp, "VERIF_DIR="+verifDir, "VERIF_NO_EVIDENCE=1")
		if meta.Only64bit {
			cmd.Env = append(cmd.Env, "VERIF_NO_ARCH32=1")
		}
		out, _ := cmd.CombinedOutput()
		os.RemoveAll(tmp)
		code := cmd.ProcessState.ExitCode()
		status := "silent"
		if meta.Only64bit {
			status = "silent (64-bit worlds only: the change itself is broken on 32-bit platforms)"
		}
		if code != 0 || strings.Contains(string(out), "VIOLATION property=") {
			status = fmt.Sprintf("ALARM (exit %d) %s", code, firstLine(out, "violation:"))
			if code != 1 {
				// infrastructure trouble: show what the check said
				t := string(out)
				if len(t) > 3000 {
					t = t[len(t)-3000:]
				}
				status += "\n" + t
			}
			alarms++
		}
		fmt.Printf("%-8s %s: %s\n", e.Name(), meta.Property, status)
	}
	if fs, _ := filepath.Glob(filepath.Join(verifDir, "replays", "*.json")); len(fs) > 0 && os.Getenv("VERIF_KEEP_REPLAYS") == "" {
		for _, f := range fs {
			os.Remove(f)
		}
	}
	if alarms > 0 {
		fmt.Printf("selftest variants: %d alarm(s) on property-preserving code\n", alarms)
		return 1
	}
	fmt.Println("selftest variants: no alarm on any kept re-implementation")
	return 0
}

func firstLine(out []byte, prefix string) string {
	for _, l := range strings.Split(string(out), "\n") {
		if strings.HasPrefix(l, prefix) {
			if len(l) > 200 {
				l = l[:200]
			}
			return l
		}
	}
	return ""
}

// selftest channels: the emulation of channels, select and timers (zsim/chan.go) is
// checked against the semantics of the Go specification by the chanself world: ordering
// and completion of unbuffered exchanges, capacity and FIFO of buffered channels, exactly
// one case of a select taken (and every ready case taken in some run), close waking every
// receiver, panics on closed channels, nil channels, timers and context timers on the
// simulated clock, and a rendezvous that never happens ending as a stuck state.
func selftestChannels() int {
	scratch, worker := prepare("C10", "", false)
	_ = scratch
	defer cleanup()
	cmd := exec.Command(worker, "-world", "chanself", "-prop", "selftest", "-seed", strconv.FormatUint(seedFromEnv(), 10), "-from", "0", "-to", "60000", "-wall", "120", "-noshrink")
	cmd.Env = env()
	out, err := cmd.Output()
	var o struct {
		Stats struct {
			Runs   int            `json:"runs"`
			Probes map[string]int `json:"probes"`
		} `json:"stats"`
		Violations []struct {
			Clause string `json:"clause"`
			Msg    string `json:"msg"`
			Run    int    `json:"run"`
		} `json:"violations"`
	}
	if err != nil || json.Unmarshal(out, &o) != nil {
		fmt.Printf("selftest channels: worker failed: %v\n%s\n", err, tail(out, 2000))
		return 2
	}
	for _, v := range o.Violations {
		fmt.Printf("selftest channels: run %d: %s: %s\n", v.Run, v.Clause, v.Msg)
	}
	bad := len(o.Violations) > 0
	for _, p := range []string{"select_took_0", "select_took_1", "rendezvous", "select_several_ready"} {
		if o.Stats.Probes[p] == 0 {
			fmt.Printf("selftest channels: never reached: %s\n", p)
			bad = true
		}
	}
	if bad {
		return 2
	}
	fmt.Printf("selftest channels: OK (%d runs; select took case 0 %d times and case 1 %d times when both were ready; %d rendezvous)\n", o.Stats.Runs, o.Stats.Probes["select_took_0"], o.Stats.Probes["select_took_1"], o.Stats.Probes["rendezvous"])
	return 0
}

// selftest passthrough: the source rewriter must not change behaviour outside a
// simulation. A copy of /repo *with* its test files is instrumented and the
// repository's own test suite is run against it (shims fall through to the
// real primitives), in the default and in the binary_log build.
func selftestPassthrough() int {
	tmp, err := os.MkdirTemp("", "verif-passthrough-")
	if err != nil {
		fmt.Fprintln(os.Stderr, err)
		return 2
	}
	defer os.RemoveAll(tmp)
	if err := copyTree("/repo", tmp, func(rel string, d fs.DirEntry) bool {
		return d.IsDir() && (rel == ".git" || rel == "cmd")
	}); err != nil {
		fmt.Fprintln(os.Stderr, err)
		return 2
	}
	if err := copyTree(filepath.Join(verifDir, "sim", "zsim"), filepath.Join(tmp, "zsim"), nil); err != nil {
		fmt.Fprintln(os.Stderr, err)
		return 2
	}
	if _, err := instr.Run(tmp); err != nil {
		fmt.Fprintln(os.Stderr, err)
		return 2
	}
	gm, _ := os.ReadFile(filepath.Join(tmp, "go.mod"))
	gms := regexp.MustCompile(`(?m)^go [0-9.]+$`).ReplaceAllString(string(gm), "go 1.21") + "\nrequire github.com/anishathalye/porcupine v1.3.0\n"
	os.WriteFile(filepath.Join(tmp, "go.mod"), []byte(gms), 0o644)
	rc := 0
	for _, args := range [][]string{
		{"test", "-count=1", ".", "./diode/...", "./hlog/...", "./internal/...", "./log/...", "./pkgerrors/..."},
		{"test", "-count=1", "-tags", "binary_log", "."},
	} {
		cmd := exec.Command("go", args...)
		cmd.Dir = tmp
		cmd.Env = env()
		out, err := cmd.CombinedOutput()
		fmt.Printf("go %s\n%s", strings.Join(args, " "), out)
		if err != nil {
			rc = 1
		}
	}
	if rc == 0 {
		fmt.Println("selftest passthrough: the repository's suite passes on the instrumented copy")
	}
	return rc
}
