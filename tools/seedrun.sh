#!/bin/bash
# seedrun.sh: run the registered quick check against every kept seeded change and record the outcome
cd /verif
for d in seeded/*/; do
  id=$(basename $d); P=${id%%-*}
  git -C /repo apply /verif/$d/patch.diff || { echo "$id: patch does not apply"; continue; }
  bin/vcheck $P --wall ${WALL:-10} > $d/check_final.log 2>&1; rc=$?
  git -C /repo checkout -- .
  clause=$(grep -m1 -o "clause=[A-Za-z0-9_.]*" $d/check_final.log)
  echo "$id exit=$rc $clause"
done
