#!/bin/bash
# seedcheck.sh <PROP> <K> <demo-package-dir-relative> [extra go test flags]
# Confirms a sub-agent mutant in a scratch worktree (applies, builds, suite passes, demo fails with /
# passes without), then runs the registered check against it in /repo and restores /repo.
export GOFLAGS=-mod=mod GOPROXY=off GOSUMDB=off GOTOOLCHAIN=local
P=$1; K=$2; DDIR=${3:-.}; shift 3
SRC=/tmp/${ROUND:-wt}-$P/_out
WT=/tmp/vt-$P-$K
ID=$P-${TAG:-m}$K
OUT=/verif/seeded/$ID
rm -rf $OUT; mkdir -p $OUT
git -C /repo worktree remove --force $WT 2>/dev/null
git -C /repo worktree add -q --detach $WT HEAD || exit 2
cd $WT
DEMO=${DEMO:-$(ls $SRC/m${K}_demo* | head -1)}
echo "== $ID demo=$DEMO dir=$DDIR"
git apply --check $SRC/m$K.diff || { echo "PATCH DOES NOT APPLY"; exit 2; }
# demo without the change
mkdir -p $DDIR; cp $DEMO $DDIR/zz_seed_demo_test.go
go test -count=1 "$@" -run 'Demo|M'$K ./$DDIR > $OUT/demo_without.log 2>&1; W=$?
git apply $SRC/m$K.diff
go build ./... > $OUT/build.log 2>&1; B=$?
go test -count=1 "$@" -run 'Demo|M'$K ./$DDIR > $OUT/demo_with.log 2>&1; D=$?
rm -f $DDIR/zz_seed_demo_test.go
go test -count=1 ./... > $OUT/suite.log 2>&1
SFAIL=$(grep -E "^(--- FAIL|FAIL)" $OUT/suite.log | grep -v journald | grep -v "^FAIL$" | head -5)
echo "build=$B demo_without=$W (want 0) demo_with=$D (want !=0) suite_failures_other_than_journald=[$SFAIL]"
cd /; git -C /repo worktree remove --force $WT
cp $SRC/m$K.diff $OUT/patch.diff; cp $DEMO $OUT/; cp $SRC/m$K.md $OUT/agent_notes.md
# now the registered check against the mutant: a scratch copy of /repo with the patch applied
# (VERIF_REPO), so that /repo itself is never touched by this script
RT=$(mktemp -d /tmp/seedrepo-$ID-XXXX)
rsync -a --exclude .git --exclude cmd /repo/ $RT/
( cd $RT && git apply $OUT/patch.diff ) || exit 2
( cd /verif && VERIF_REPO=$RT VERIF_NO_EVIDENCE=1 bin/vcheck ${CHECKP:-$P} > $OUT/check.log 2>&1; echo "check_exit=$?" )
rm -rf $RT
grep -E "^violation|^VIOLATION|^KNOWN|vcheck: ${CHECKP:-$P}" $OUT/check.log | cut -c1-400 | head -6
