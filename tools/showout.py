#!/usr/bin/env python3
import json,sys
full = '-t' in sys.argv
o=json.load(sys.stdin)
s=o['stats']
print({k:s[k] for k in ['runs','nontrivial','steps','truncated','stuck_end_states','wall_s']})
print(' faults',s['faults']); print(' probes',s['probes'])
for v in o.get('violations') or []:
    print('VIOL',v['clause'],v['msg'][:500]); print(' summary',v['summary']); print(' choices',len(v['choices']),'from',v['orig_choices'],'shrinkruns',v['shrink_runs'],'stable',v['stable'])
    if full:
        for t in v['trace']: print('   ',t['step'],t['task'],t['what'])
