#!/usr/bin/env python3
# prints the markdown table of kept property-preserving variants (DESIGN.md section 10.9)
import json,glob
print("| id | what was re-implemented | first run | machinery corrected |")
print("|---|---|---|---|")
for f in sorted(glob.glob('/verif/variants/*/meta.json')):
    m=json.load(open(f)); c=m['check']
    print(f"| {m['id']} | {m['reimplemented']} | {c['first_attempt']} | {c.get('what_was_wrong_with_the_machinery','')} |")
