#!/bin/bash
# dev helper: assemble an instrumented scratch copy of /repo in $1 and build the worker
set -e
export GOFLAGS=-mod=mod GOPROXY=off GOSUMDB=off GOTOOLCHAIN=local
S=${1:-/tmp/zs1}
rm -rf $S; mkdir -p $S
rsync -a --exclude .git --exclude cmd --exclude '*_test.go' --exclude 'internal/cbor/examples' /repo/ $S/
cp -r /verif/sim/zsim $S/zsim
/verif/bin/zinstr -root $S >/dev/null
cd $S
sed -i 's/^go 1.15/go 1.21/' go.mod
go mod edit -require=github.com/anishathalye/porcupine@v1.3.0
go build -ldflags "-X github.com/rs/zerolog/zsim.hosted=1" -o $S/simworker ./zsim/cmd/simworker
go build -ldflags "-X github.com/rs/zerolog/zsim.hosted=1" -tags binary_log -o $S/simworker.bin ./zsim/cmd/simworker
