package zsim

// Choices is the single source of every nondeterministic answer of a run:
// scheduling decisions, pool hand-outs, faults and workload parameters.
// In search mode answers come from a PRNG seeded from (seed, run index) and are
// recorded; in replay mode they come from a recorded list (exhausted => 0).
// Generators are written so that 0 is the simplest answer.
type Choices struct {
	Replay bool
	list   []uint32
	pos    int
	Rec    []uint32
	rng    RNG
	// Overrun counts replay answers requested after the list was exhausted.
	Overrun int
}

// RNG is splitmix64.
type RNG struct{ s uint64 }

//go:norace
func (r *RNG) Next() uint64 {
	r.s += 0x9e3779b97f4a7c15
	z := r.s
	z = (z ^ (z >> 30)) * 0xbf58476d1ce4e5b9
	z = (z ^ (z >> 27)) * 0x94d049bb133111eb
	return z ^ (z >> 31)
}

//go:norace
func (r *RNG) Intn(n int) int {
	if n <= 1 {
		return 0
	}
	return int(r.Next() % uint64(n))
}

// Mix hashes several integers into one seed.
//
//go:norace
func Mix(vs ...uint64) uint64 {
	h := uint64(0x8422d1f2a9c3b5e7)
	for _, v := range vs {
		h ^= v + 0x9e3779b97f4a7c15 + (h << 6) + (h >> 2)
		r := RNG{h}
		h = r.Next()
	}
	return h
}

//go:norace
func NewSearch(seed uint64) *Choices {
	return &Choices{rng: RNG{seed}}
}

//go:norace
func NewReplay(list []uint32) *Choices {
	return &Choices{Replay: true, list: list}
}

//go:norace
func (c *Choices) next(n int) (int, bool) {
	if c.pos < len(c.list) {
		v := int(c.list[c.pos] % uint32(n))
		c.pos++
		return v, true
	}
	c.pos++
	c.Overrun++
	return 0, true
}

// Intn returns an answer in [0,n); uniform in search mode.
//
//go:norace
func (c *Choices) Intn(n int) int {
	if n <= 1 {
		return 0
	}
	var v int
	if c.Replay {
		v, _ = c.next(n)
	} else {
		v = c.rng.Intn(n)
	}
	c.record(uint32(v))
	return v
}

// Pick returns an answer in [0,n); in search mode gen proposes it (so that a
// strategy can bias it); in replay mode the recorded answer is used.
//
//go:norace
func (c *Choices) Pick(n int, gen func(r *RNG) int) int {
	if n <= 1 {
		return 0
	}
	var v int
	if c.Replay {
		v, _ = c.next(n)
	} else {
		v = gen(&c.rng)
		if v < 0 || v >= n {
			v = 0
		}
	}
	c.record(uint32(v))
	return v
}

// Weighted returns index i with probability w[i]/sum(w); index 0 should be the
// simplest alternative.
//
//go:norace
func (c *Choices) Weighted(w ...int) int {
	return c.Pick(len(w), func(r *RNG) int {
		tot := 0
		for _, x := range w {
			tot += x
		}
		if tot <= 0 {
			return 0
		}
		k := r.Intn(tot)
		for i, x := range w {
			if k < x {
				return i
			}
			k -= x
		}
		return 0
	})
}

// Chance is true with probability num/den (false is the simple answer).
//
//go:norace
func (c *Choices) Chance(num, den int) bool {
	return c.Weighted(den-num, num) == 1
}

// Range returns a value in [lo,hi].
//
//go:norace
func (c *Choices) Range(lo, hi int) int {
	if hi <= lo {
		return lo
	}
	return lo + c.Intn(hi-lo+1)
}

// Raw gives world code access to an auxiliary PRNG answer that is recorded as
// one choice (used for payload seeds and the like).
//
//go:norace
func (c *Choices) Raw() uint32 {
	var v uint32
	if c.Replay {
		if c.pos < len(c.list) {
			v = c.list[c.pos]
		}
		c.pos++
	} else {
		v = uint32(c.rng.Next())
	}
	c.record(v)
	return v
}

// Overhead is the number of heap bytes the simulator has allocated for its own
// bookkeeping (the answer record, the trace, waiter records), as far as it keeps
// count: oracles that meter the allocations of the code under test subtract it.
var Overhead uint64

//go:norace
func (c *Choices) record(v uint32) {
	before := cap(c.Rec)
	c.Rec = append(c.Rec, v)
	if n := cap(c.Rec); n != before {
		Overhead += uint64(n) * 4
	}
}
