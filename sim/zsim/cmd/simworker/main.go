// simworker runs a range of seeded simulation runs of one world for one
// property, shrinks violations and prints one JSON document.
package main

import (
	"encoding/binary"
	"encoding/json"
	"flag"
	"fmt"
	"os"
	"runtime"
	"runtime/pprof"
	"sort"
	"sync/atomic"
	"time"

	"github.com/rs/zerolog/zsim"
	"github.com/rs/zerolog/zsim/worlds"
)

type ViolationRec struct {
	Property   string         `json:"property"`
	World      string         `json:"world"`
	Seed       uint64         `json:"seed"`
	Run        int            `json:"run"`
	Clause     string         `json:"clause"`
	Msg        string         `json:"msg"`
	Summary    string         `json:"summary"`
	Choices    []uint32       `json:"choices"`
	OrigLen    int            `json:"orig_choices"`
	ShrinkRuns int            `json:"shrink_runs"`
	Stable     bool           `json:"stable"`
	Trace      []zsim.TraceEv `json:"trace"`
	Probes     map[string]int `json:"probes,omitempty"`
}

type Sample struct {
	Run     int            `json:"run"`
	Summary string         `json:"summary"`
	Steps   int            `json:"steps"`
	Choices int            `json:"choices"`
	Trace   []zsim.TraceEv `json:"trace,omitempty"`
}

type Stats struct {
	Runs        int            `json:"runs"`
	Nontrivial  int            `json:"nontrivial"`
	Steps       int64          `json:"steps"`
	SimTimeNs   int64          `json:"sim_time_ns"`
	Switches    int64          `json:"switches"`
	Truncated   int            `json:"truncated"`
	Stuck       int            `json:"stuck_end_states"`
	Strategies  map[string]int `json:"strategies"`
	Faults      map[string]int `json:"faults"`
	Probes      map[string]int `json:"probes"`
	WallS       float64        `json:"wall_s"`
	SitesHit    map[string]int `json:"sites_hit"`
	SitesTotal  map[string]int `json:"sites_total"`
	Samples     []Sample       `json:"samples"`
	First, Last int
}

type Output struct {
	Stats      Stats          `json:"stats"`
	Violations []ViolationRec `json:"violations"`
	Findings   []ViolationRec `json:"findings"`
	Real       []string       `json:"real"`
	Stub       []string       `json:"stub"`
	Error      string         `json:"error,omitempty"`
}

var beat int64

func main() {
	world := flag.String("world", "", "world name")
	prop := flag.String("prop", "", "property id")
	seed := flag.Uint64("seed", 1, "VERIF_SEED")
	from := flag.Int("from", 0, "first run index")
	to := flag.Int("to", 1<<30, "last run index (exclusive)")
	wall := flag.Float64("wall", 10, "wall budget in seconds")
	replay := flag.String("replay", "", "replay file")
	hashes := flag.String("hashes", "", "file receiving the trace hashes of nontrivial runs")
	maxViol := flag.Int("maxviol", 2, "stop after this many violations")
	logRuns := flag.String("eventlog", "", "determinism self-test: write one line per run (hash, steps, choices) to this file")
	siteDump := flag.String("sitedump", "", "write 'file:line hits' for every statement site to this file (coverage report)")
	deep := flag.Bool("deep", false, "thorough tier: worlds use wider bounds")
	noShrink := flag.Bool("noshrink", false, "do not shrink or confirm violations (determinism self-test)")
	memProf := flag.String("memprofile", "", "development aid: write an allocation profile (every allocation sampled) to this file at exit")
	flag.Parse()
	writeProf := func() {}
	if *memProf != "" {
		runtime.MemProfileRate = 1
		writeProf = func() {
			if f, err := os.Create(*memProf); err == nil {
				pprof.Lookup("allocs").WriteTo(f, 0)
				f.Close()
			}
		}
		defer writeProf()
	}

	if !zsim.Hosted() {
		fmt.Fprintln(os.Stderr, "simworker: built without -ldflags \"-X github.com/rs/zerolog/zsim.hosted=1\": goroutines started by package initialisation would run outside the simulator")
		os.Exit(2)
	}
	zsim.Deep = *deep
	if *world == "" {
		*world = worlds.WorldFor(*prop)
	}
	w := worlds.Get(*world)
	if w == nil {
		fmt.Fprintf(os.Stderr, "simworker: no world %q for property %q (have %v)\n", *world, *prop, worlds.Names())
		os.Exit(2)
	}
	go watchdog()

	if *replay != "" {
		code := doReplay(w, *world, *prop, *replay)
		writeProf()
		os.Exit(code)
	}

	out := Output{}
	out.Real, out.Stub = w.Components()
	st := &out.Stats
	st.Strategies, st.Faults, st.Probes = map[string]int{}, map[string]int{}, map[string]int{}
	st.First = *from
	start := time.Now()
	deadline := start.Add(time.Duration(*wall * float64(time.Second)))
	hashSet := map[uint64]struct{}{}
	type cand struct {
		run, steps int
		rec        []uint32
		summary    string
	}
	var shortest []cand
	var longest cand
	var evlog *os.File
	if *logRuns != "" {
		evlog, _ = os.Create(*logRuns)
	}
	findingSeen := map[string]bool{}
	idx := *from
	for ; idx < *to; idx++ {
		if time.Now().After(deadline) {
			break
		}
		atomic.StoreInt64(&beat, time.Now().UnixNano())
		fmt.Fprintf(os.Stderr, "RUN %d\n", idx)
		ch := zsim.NewSearch(runSeed(*seed, *world, *prop, idx))
		res := w.Run(*prop, ch, false)
		st.Runs++
		st.Steps += int64(res.Steps)
		st.SimTimeNs += res.SimTime
		st.Switches += int64(res.Switches)
		if res.Truncated {
			st.Truncated++
		}
		if res.Stuck {
			st.Stuck++
		}
		st.Strategies[zsim.StratNames[res.Strategy]]++
		for k, v := range res.Faults {
			st.Faults[k] += v
		}
		for k, v := range res.Probes {
			st.Probes[k] += v
		}
		if evlog != nil {
			fmt.Fprintf(evlog, "%d %016x %d %d %v\n", idx, res.Hash, res.Steps, len(res.Rec), res.Viol != nil)
		}
		if res.Nontrivial {
			st.Nontrivial++
			hashSet[res.Hash] = struct{}{}
			c := cand{idx, res.Steps, res.Rec, res.Summary}
			if len(shortest) < 3 {
				shortest = append(shortest, c)
			} else {
				worst := 0
				for i := range shortest {
					if shortest[i].steps > shortest[worst].steps {
						worst = i
					}
				}
				if c.steps < shortest[worst].steps {
					shortest[worst] = c
				}
			}
			if c.steps > longest.steps {
				longest = c
			}
		}
		for _, f := range res.Findings {
			if !findingSeen[f.Clause] {
				findingSeen[f.Clause] = true
				out.Findings = append(out.Findings, ViolationRec{Property: *prop, World: *world, Seed: *seed, Run: idx, Clause: f.Clause, Msg: f.Msg, Summary: res.Summary, Choices: res.Rec, OrigLen: len(res.Rec), Stable: true})
			}
			st.Probes["finding:"+f.Clause]++
		}
		if res.Viol != nil && *noShrink {
			out.Violations = append(out.Violations, ViolationRec{Property: *prop, Run: idx, Clause: res.Viol.Clause, Msg: res.Viol.Msg, Stable: true})
		} else if res.Viol != nil {
			v := handleViolation(w, *world, *prop, *seed, idx, res)
			out.Violations = append(out.Violations, v)
			if len(out.Violations) >= *maxViol {
				idx++
				break
			}
		}
	}
	st.Last = idx
	st.WallS = time.Since(start).Seconds()
	// samples: re-run with tracing
	cs := append([]cand{}, shortest...)
	if longest.rec != nil {
		cs = append(cs, longest)
	}
	for _, c := range cs {
		atomic.StoreInt64(&beat, time.Now().UnixNano())
		res := w.Run(*prop, zsim.NewReplay(c.rec), true)
		tr := res.Trace
		if len(tr) > 60 {
			tr = append(append([]zsim.TraceEv{}, tr[:40]...), zsim.TraceEv{What: fmt.Sprintf("... %d events omitted ...", len(tr)-60)})
			tr = append(tr, res.Trace[len(res.Trace)-20:]...)
		}
		st.Samples = append(st.Samples, Sample{Run: c.run, Summary: c.summary, Steps: c.steps, Choices: len(c.rec), Trace: tr})
	}
	st.SitesHit, st.SitesTotal = map[string]int{}, map[string]int{}
	for _, f := range zsim.SiteFiles {
		hit := 0
		for i := f.From; i < f.To; i++ {
			if zsim.SiteHits[i] > 0 {
				hit++
			}
		}
		if hit > 0 {
			st.SitesHit[f.File] = hit
			st.SitesTotal[f.File] = f.To - f.From
		}
	}
	if *siteDump != "" {
		var sb []byte
		for _, f := range zsim.SiteFiles {
			for i := f.From; i < f.To; i++ {
				sb = append(sb, fmt.Sprintf("%s:%d %d\n", f.File, zsim.SiteLines[i], zsim.SiteHits[i])...)
			}
		}
		os.WriteFile(*siteDump, sb, 0o644)
	}
	if *hashes != "" {
		hs := make([]uint64, 0, len(hashSet))
		for h := range hashSet {
			hs = append(hs, h)
		}
		sort.Slice(hs, func(i, j int) bool { return hs[i] < hs[j] })
		buf := make([]byte, 8*len(hs))
		for i, h := range hs {
			binary.LittleEndian.PutUint64(buf[8*i:], h)
		}
		os.WriteFile(*hashes, buf, 0o644)
	}
	enc := json.NewEncoder(os.Stdout)
	enc.Encode(out)
	for _, v := range out.Violations {
		if !v.Stable {
			os.Exit(3)
		}
	}
}

func runSeed(seed uint64, world, prop string, idx int) uint64 {
	h := uint64(1469598103934665603)
	for _, c := range []byte(world + "/" + prop) {
		h = (h ^ uint64(c)) * 1099511628211
	}
	return zsim.Mix(seed, h, uint64(idx))
}

func watchdog() {
	for {
		time.Sleep(5 * time.Second)
		b := atomic.LoadInt64(&beat)
		if b != 0 && time.Now().UnixNano()-b > int64(90*time.Second) {
			buf := make([]byte, 1<<20)
			n := runtime.Stack(buf, true)
			fmt.Fprintf(os.Stderr, "simworker: watchdog: a run made no progress for 90s (a task blocked on an un-simulated primitive?)\n%s\n", buf[:n])
			os.Exit(2)
		}
	}
}

func handleViolation(w worlds.World, world, prop string, seed uint64, idx int, res *worlds.RunResult) ViolationRec {
	v := ViolationRec{Property: prop, World: world, Seed: seed, Run: idx, Clause: res.Viol.Clause, Msg: res.Viol.Msg, Summary: res.Summary, OrigLen: len(res.Rec)}
	clause := res.Viol.Clause
	nruns := 0
	run := func(list []uint32) *worlds.RunResult {
		nruns++
		atomic.StoreInt64(&beat, time.Now().UnixNano())
		return w.Run(prop, zsim.NewReplay(list), false)
	}
	same := func(r *worlds.RunResult) bool { return r.Viol != nil && r.Viol.Clause == clause }
	cur := res.Rec
	// the recorded answers must reproduce the violation, otherwise the machinery
	// is not deterministic and nothing may be reported as a violation
	r0 := run(cur)
	if !same(r0) {
		v.Stable = false
		v.Choices = cur
		v.Msg += " [NOT REPRODUCED on in-process replay]"
		return v
	}
	cur = shrink(cur, run, same, 25*time.Second)
	// confirm twice and produce the trace
	r1 := run(cur)
	r2 := w.Run(prop, zsim.NewReplay(cur), true)
	v.Stable = same(r1) && same(r2) && r1.Hash == r2.Hash
	if same(r2) {
		v.Msg = r2.Viol.Msg
		v.Summary = r2.Summary
	}
	v.Choices = cur
	v.ShrinkRuns = nruns
	v.Trace = r2.Trace
	v.Probes = r2.Probes
	return v
}

func less(a, b []uint32) bool {
	if len(a) != len(b) {
		return len(a) < len(b)
	}
	var sa, sb uint64
	for i := range a {
		sa += uint64(a[i])
		sb += uint64(b[i])
	}
	return sa < sb
}

// shrink is delta debugging on the choice list: drop chunks, zero chunks,
// halve/decrement entries; a candidate is accepted only if the same oracle
// clause fails and the normalised answer list got strictly simpler.
func shrink(cur []uint32, run func([]uint32) *worlds.RunResult, same func(*worlds.RunResult) bool, budget time.Duration) []uint32 {
	deadline := time.Now().Add(budget)
	try := func(cand []uint32) bool {
		if time.Now().After(deadline) {
			return false
		}
		r := run(cand)
		if same(r) && less(r.Rec, cur) {
			cur = append([]uint32(nil), r.Rec...)
			return true
		}
		return false
	}
	for progress := true; progress && time.Now().Before(deadline); {
		progress = false
		// delete chunks
		for size := len(cur) / 2; size >= 1; size /= 2 {
			for start := 0; start+size <= len(cur); {
				if time.Now().After(deadline) {
					return cur
				}
				cand := append(append([]uint32{}, cur[:start]...), cur[start+size:]...)
				if try(cand) {
					progress = true
				} else {
					start += size
				}
			}
		}
		// zero chunks
		for size := len(cur) / 2; size >= 1; size /= 2 {
			for start := 0; start+size <= len(cur); start += size {
				nz := false
				for _, x := range cur[start : start+size] {
					if x != 0 {
						nz = true
					}
				}
				if !nz {
					continue
				}
				if time.Now().After(deadline) {
					return cur
				}
				cand := append([]uint32{}, cur...)
				for i := start; i < start+size; i++ {
					cand[i] = 0
				}
				if try(cand) {
					progress = true
				}
			}
		}
		// reduce single entries
		for i := 0; i < len(cur); i++ {
			for cur[i] > 0 {
				if time.Now().After(deadline) {
					return cur
				}
				cand := append([]uint32{}, cur...)
				cand[i] = cur[i] / 2
				if try(cand) {
					progress = true
					if i >= len(cur) {
						break
					}
					continue
				}
				cand = append([]uint32{}, cur...)
				cand[i] = cur[i] - 1
				if try(cand) {
					progress = true
					if i >= len(cur) {
						break
					}
					continue
				}
				break
			}
		}
	}
	return cur
}

// ReplayFile is what vcheck writes to /verif/replays.
type ReplayFile struct {
	Property string         `json:"property"`
	World    string         `json:"world"`
	Seed     uint64         `json:"seed"`
	Run      int            `json:"run"`
	Clause   string         `json:"clause"`
	Msg      string         `json:"msg"`
	Summary  string         `json:"summary"`
	Choices  []uint32       `json:"choices"`
	Trace    []zsim.TraceEv `json:"trace"`
	RepoRev  string         `json:"repo_rev,omitempty"`
}

func doReplay(w worlds.World, world, prop, file string) int {
	b, err := os.ReadFile(file)
	if err != nil {
		fmt.Fprintln(os.Stderr, "simworker:", err)
		return 2
	}
	var rf ReplayFile
	if err := json.Unmarshal(b, &rf); err != nil {
		fmt.Fprintln(os.Stderr, "simworker:", err)
		return 2
	}
	if prop == "" {
		prop = rf.Property
	}
	atomic.StoreInt64(&beat, time.Now().UnixNano())
	res := w.Run(prop, zsim.NewReplay(rf.Choices), true)
	type rep struct {
		Clause   string         `json:"clause"`
		Msg      string         `json:"msg"`
		Hash     string         `json:"hash"`
		Diverged bool           `json:"diverged"`
		Trace    []zsim.TraceEv `json:"trace"`
	}
	o := rep{Hash: fmt.Sprintf("%016x", res.Hash), Trace: res.Trace}
	o.Diverged = res.Overrun > 0 || len(res.Rec) != len(rf.Choices)
	if res.Viol != nil {
		o.Clause, o.Msg = res.Viol.Clause, res.Viol.Msg
	} else {
		for _, f := range res.Findings {
			if f.Clause == rf.Clause {
				o.Clause, o.Msg = f.Clause, f.Msg
				res.Viol = &zsim.Violation{Clause: f.Clause, Msg: f.Msg}
			}
		}
	}
	json.NewEncoder(os.Stdout).Encode(o)
	if res.Viol != nil && res.Viol.Clause == rf.Clause {
		return 1
	}
	if res.Viol != nil {
		return 1
	}
	if o.Diverged {
		return 2
	}
	return 0
}
