// Package ssync replaces package sync in the instrumented copy of zerolog.
// Inside a simulation every operation is a scheduling point and blocking is a
// scheduler-visible state; outside it falls through to the real primitive.
package ssync

import (
	"runtime"
	"sync"

	"github.com/rs/zerolog/zsim"
)

type Locker = sync.Locker
type Map = sync.Map

// ---------------------------------------------------------------- Mutex

type Mutex struct {
	real  sync.Mutex
	held  bool
	owner int
	gen   uint64
}

//go:norace
func (m *Mutex) fix() {
	if g := zsim.S.Gen; m.gen != g {
		m.gen = g
		m.held = false
	}
}

//go:norace
func (m *Mutex) Lock() {
	if zsim.S == nil {
		m.real.Lock()
		return
	}
	if zsim.Dying() {
		m.fix()
		if m.held {
			runtime.Goexit()
		}
		m.held = true
		return
	}
	zsim.Yield("mutex.Lock")
	m.fix()
	for m.held {
		zsim.Probe("mutex_contended")
		zsim.Block("mutex held by task "+itoa(m.owner), func() bool { return !m.held })
	}
	m.held = true
	m.owner = zsim.CurID()
	raceAcquire(m)
}

//go:norace
func (m *Mutex) TryLock() bool {
	if zsim.S == nil {
		return m.real.TryLock()
	}
	if !zsim.Dying() {
		zsim.Yield("mutex.TryLock")
	}
	m.fix()
	if m.held {
		return false
	}
	m.held = true
	m.owner = zsim.CurID()
	raceAcquire(m)
	return true
}

//go:norace
func (m *Mutex) Unlock() {
	if zsim.S == nil {
		m.real.Unlock()
		return
	}
	m.fix()
	if zsim.Dying() {
		m.held = false
		return
	}
	if !m.held {
		panic("sync: unlock of unlocked mutex")
	}
	raceRelease(m)
	m.held = false
	zsim.Yield("mutex.Unlock")
}

// unlockNoYield is used by Cond.Wait (enqueue+unlock is atomic there).
//
//go:norace
func (m *Mutex) unlockNoYield() {
	m.fix()
	raceRelease(m)
	m.held = false
}

// ---------------------------------------------------------------- RWMutex

type RWMutex struct {
	real    sync.RWMutex
	writer  bool
	readers int
	gen     uint64
}

//go:norace
func (m *RWMutex) fix() {
	if g := zsim.S.Gen; m.gen != g {
		m.gen = g
		m.writer = false
		m.readers = 0
	}
}

//go:norace
func (m *RWMutex) Lock() {
	if zsim.S == nil {
		m.real.Lock()
		return
	}
	m.fix()
	if zsim.Dying() {
		if m.writer || m.readers > 0 {
			runtime.Goexit()
		}
		m.writer = true
		return
	}
	zsim.Yield("rwmutex.Lock")
	for m.writer || m.readers > 0 {
		zsim.Block("rwmutex", func() bool { return !m.writer && m.readers == 0 })
	}
	m.writer = true
	raceAcquire(m)
}

//go:norace
func (m *RWMutex) Unlock() {
	if zsim.S == nil {
		m.real.Unlock()
		return
	}
	m.fix()
	raceRelease(m)
	m.writer = false
	if !zsim.Dying() {
		zsim.Yield("rwmutex.Unlock")
	}
}

//go:norace
func (m *RWMutex) RLock() {
	if zsim.S == nil {
		m.real.RLock()
		return
	}
	m.fix()
	if zsim.Dying() {
		if m.writer {
			runtime.Goexit()
		}
		m.readers++
		return
	}
	zsim.Yield("rwmutex.RLock")
	for m.writer {
		zsim.Block("rwmutex(r)", func() bool { return !m.writer })
	}
	m.readers++
	raceAcquire(m)
}

//go:norace
func (m *RWMutex) RUnlock() {
	if zsim.S == nil {
		m.real.RUnlock()
		return
	}
	m.fix()
	raceRelease(m)
	if m.readers > 0 {
		m.readers--
	}
	if !zsim.Dying() {
		zsim.Yield("rwmutex.RUnlock")
	}
}

//go:norace
func (m *RWMutex) TryLock() bool {
	if zsim.S == nil {
		return m.real.TryLock()
	}
	m.fix()
	if m.writer || m.readers > 0 {
		return false
	}
	m.writer = true
	raceAcquire(m)
	return true
}

//go:norace
func (m *RWMutex) TryRLock() bool {
	if zsim.S == nil {
		return m.real.TryRLock()
	}
	m.fix()
	if m.writer {
		return false
	}
	m.readers++
	raceAcquire(m)
	return true
}

type rlocker RWMutex

//go:norace
func (r *rlocker) Lock() { (*RWMutex)(r).RLock() }

//go:norace
func (r *rlocker) Unlock() { (*RWMutex)(r).RUnlock() }

//go:norace
func (m *RWMutex) RLocker() Locker { return (*rlocker)(m) }

// ---------------------------------------------------------------- Cond

type condWaiter struct {
	signaled bool
	task     int
}

type Cond struct {
	L       Locker
	real    *sync.Cond
	waiters []*condWaiter
	gen     uint64
}

//go:norace
func NewCond(l Locker) *Cond {
	return &Cond{L: l, real: sync.NewCond(l)}
}

//go:norace
func (c *Cond) fix() {
	if g := zsim.S.Gen; c.gen != g {
		c.gen = g
		c.waiters = nil
	}
}

//go:norace
func (c *Cond) Wait() {
	if zsim.S == nil {
		if c.real == nil {
			c.real = sync.NewCond(c.L)
		}
		c.real.Wait()
		return
	}
	if zsim.Dying() {
		runtime.Goexit()
	}
	// a preemption here is the window between the caller's last check and the
	// moment it is on the notify list
	zsim.Yield("cond.Wait(enter)")
	c.fix()
	w := &condWaiter{task: zsim.CurID()}
	c.waiters = append(c.waiters, w)
	if m, ok := c.L.(*Mutex); ok {
		m.unlockNoYield()
	} else {
		c.L.Unlock()
	}
	for !w.signaled {
		zsim.Block("cond.Wait", func() bool { return w.signaled })
	}
	c.L.Lock()
}

//go:norace
func (c *Cond) Signal() {
	if zsim.S == nil {
		if c.real == nil {
			c.real = sync.NewCond(c.L)
		}
		c.real.Signal()
		return
	}
	c.fix()
	if !zsim.Dying() {
		zsim.Yield("cond.Signal")
	}
	if len(c.waiters) == 0 {
		zsim.Probe("cond_signal_no_waiter")
		return
	}
	i := 0
	if len(c.waiters) > 1 && !zsim.Dying() {
		i = zsim.S.Ch.Intn(len(c.waiters))
	}
	c.waiters[i].signaled = true
	for k := i; k+1 < len(c.waiters); k++ {
		c.waiters[k] = c.waiters[k+1]
	}
	c.waiters = c.waiters[:len(c.waiters)-1]
}

//go:norace
func (c *Cond) Broadcast() {
	if zsim.S == nil {
		if c.real == nil {
			c.real = sync.NewCond(c.L)
		}
		c.real.Broadcast()
		return
	}
	c.fix()
	if !zsim.Dying() {
		zsim.Yield("cond.Broadcast")
	}
	if len(c.waiters) == 0 {
		zsim.Probe("cond_broadcast_no_waiter")
	} else {
		zsim.Probe("cond_broadcast_woke")
	}
	zsim.Log("broadcast wakes %d", len(c.waiters))
	for _, w := range c.waiters {
		w.signaled = true
	}
	c.waiters = nil
}

// ---------------------------------------------------------------- Once

type Once struct {
	real    sync.Once
	done    bool
	running bool
	gen     uint64
}

//go:norace
func (o *Once) notRunning() bool { return !o.running }

//go:norace
func (o *Once) finish() {
	o.running = false
	o.done = true
	raceRelease(o)
}

//go:norace
func (o *Once) finishReal() {
	o.done = true
}

//go:norace
func (o *Once) Do(f func()) {
	if zsim.S == nil {
		if o.done {
			return
		}
		o.real.Do(func() { defer o.finishReal(); f() })
		return
	}
	if !zsim.Dying() {
		zsim.Yield("once.Do")
	}
	if o.gen != zsim.S.Gen {
		// every run is a process of its own: what a package-level Once started in an
		// earlier run (a lazily started worker goroutine) is gone
		o.gen = zsim.S.Gen
		o.running = false
		o.done = false
	}
	if o.done {
		raceAcquire(o)
		return
	}
	for o.running {
		zsim.Block("once", o.notRunning)
	}
	if o.done {
		raceAcquire(o)
		return
	}
	o.running = true
	defer o.finish()
	f()
}

//go:norace
func OnceFunc(f func()) func() {
	var o Once
	return func() { o.Do(f) }
}

//go:norace
func OnceValue[T any](f func() T) func() T {
	var o Once
	var v T
	return func() T { o.Do(func() { v = f() }); return v }
}

//go:norace
func OnceValues[T1, T2 any](f func() (T1, T2)) func() (T1, T2) {
	var o Once
	var v1 T1
	var v2 T2
	return func() (T1, T2) { o.Do(func() { v1, v2 = f() }); return v1, v2 }
}

// ---------------------------------------------------------------- WaitGroup

type WaitGroup struct {
	real sync.WaitGroup
	n    int
	gen  uint64
}

//go:norace
func (w *WaitGroup) fix() {
	if g := zsim.S.Gen; w.gen != g {
		w.gen = g
		w.n = 0
	}
}

//go:norace
func (w *WaitGroup) Add(d int) {
	if zsim.S == nil {
		w.real.Add(d)
		return
	}
	w.fix()
	if !zsim.Dying() {
		zsim.Yield("wg.Add")
	}
	if d < 0 {
		raceRelease(w)
	}
	w.n += d
	if w.n < 0 && !zsim.Dying() {
		panic("sync: negative WaitGroup counter")
	}
}

//go:norace
func (w *WaitGroup) Done() { w.Add(-1) }

//go:norace
func (w *WaitGroup) Wait() {
	if zsim.S == nil {
		w.real.Wait()
		return
	}
	w.fix()
	if zsim.Dying() {
		if w.n > 0 {
			runtime.Goexit()
		}
		return
	}
	zsim.Yield("wg.Wait")
	for w.n > 0 {
		zsim.Block("waitgroup", w.zero)
	}
	raceAcquire(w)
}

//go:norace
func (w *WaitGroup) zero() bool { return w.n <= 0 }

//go:norace
func itoa(n int) string {
	if n < 0 {
		return "-"
	}
	if n < 10 {
		return string(rune('0' + n))
	}
	return itoa(n/10) + string(rune('0'+n%10))
}
