package ssync

import (
	"bytes"
	"reflect"
	"sync"
	"unsafe"

	"github.com/rs/zerolog/zsim"
)

// Pool is sync.Pool under the simulator. sync.Pool promises nothing about which
// entry Get returns nor that a Put entry is kept, so inside a simulation the
// hand-out order, misses (New although entries are free) and drops are choices.
// On Put the *unused capacity* of the entry's byte buffer (what lies beyond its
// length) is poisoned: nobody may own that part while the entry is in the pool. The
// poison is verified on the next Get, so an append by the previous owner after Put, or
// a second owner, is a deterministic event. The bytes within the length are left
// alone: whether they are dead is the business of the code that uses the pool (an
// arena that parks partly used blocks in a pool keeps handing out slices of them; an
// earlier version poisoned the whole capacity and raised a false alarm on such a
// design). A buffer that is reset to length zero before Put is poisoned entirely, as
// before.
type Pool struct {
	New  func() any
	real sync.Pool
	free []poolEntry
	gen  uint64
	nGet int
}

type poolEntry struct {
	v      any
	id     uintptr
	region []byte
	putBy  int
	putAt  int
}

// Pool policies (drawn once per run by zsim.PoolPolicy).
const (
	polLIFO = iota
	polFIFO
	polRandom
	polRandomMissDrop
)

//go:norace
func (p *Pool) fix() {
	if g := zsim.S.Gen; p.gen != g {
		p.gen = g
		p.free = nil
		p.nGet = 0
	}
}

//go:norace
func ident(v any) uintptr {
	rv := reflect.ValueOf(v)
	switch rv.Kind() {
	case reflect.Ptr, reflect.UnsafePointer, reflect.Map, reflect.Chan, reflect.Func:
		return rv.Pointer()
	case reflect.Slice:
		if rv.Cap() == 0 {
			return 0
		}
		return rv.Pointer()
	}
	return 0
}

// region finds the unused capacity of the byte buffer owned by a pooled value.
//
//go:norace
func region(v any) []byte {
	switch x := v.(type) {
	case []byte:
		return x[len(x):cap(x)]
	case *[]byte:
		if x == nil {
			return nil
		}
		return (*x)[len(*x):cap(*x)]
	case *bytes.Buffer:
		return bufField(reflect.ValueOf(x).Elem())
	}
	rv := reflect.ValueOf(v)
	if rv.Kind() == reflect.Ptr && !rv.IsNil() && rv.Elem().Kind() == reflect.Struct {
		return bufField(rv.Elem())
	}
	return nil
}

//go:norace
func bufField(st reflect.Value) []byte {
	f := st.FieldByName("buf")
	if !f.IsValid() || f.Kind() != reflect.Slice || f.Type().Elem().Kind() != reflect.Uint8 {
		return nil
	}
	if !f.CanAddr() {
		return nil
	}
	b := *(*[]byte)(unsafe.Pointer(f.UnsafeAddr()))
	return b[len(b):cap(b)]
}

//go:norace
func poisonByte(i int) byte { return 0xA5 ^ byte(i*7) }

//go:norace
func (p *Pool) Get() any {
	if zsim.S == nil {
		v := p.real.Get()
		if v == nil && p.New != nil {
			v = p.New()
		}
		return v
	}
	if zsim.Dying() {
		if p.New != nil {
			return p.New()
		}
		return nil
	}
	zsim.Yield("pool.Get")
	p.fix()
	p.nGet++
	s := zsim.S
	pol := s.PoolPolicy()
	n := len(p.free)
	if n == 0 || (pol == polRandomMissDrop && s.Ch.Chance(1, 8)) {
		if n == 0 {
			zsim.Probe("pool_new")
		} else {
			zsim.Probe("pool_miss")
			zsim.Fault("pool_miss")
		}
		if p.New != nil {
			return p.New()
		}
		return nil
	}
	i := n - 1
	switch pol {
	case polFIFO:
		i = 0
	case polRandom, polRandomMissDrop:
		i = n - 1 - s.Ch.Intn(n)
	}
	if i != n-1 {
		zsim.Probe("pool_non_lifo")
	}
	e := p.free[i]
	for k := i; k+1 < len(p.free); k++ {
		p.free[k] = p.free[k+1]
	}
	p.free[len(p.free)-1] = poolEntry{}
	p.free = p.free[:len(p.free)-1]
	for k, b := range e.region {
		if b != poisonByte(k) {
			zsim.Fail("pool.write_after_put", "a pooled buffer was modified at offset %d while it was free (put by task %d at step %d, taken by task %d)", k, e.putBy, e.putAt, zsim.CurID())
		}
	}
	zsim.Probe("pool_reuse")
	if e.putBy != zsim.CurID() {
		zsim.Probe("pool_reuse_other_task")
	}
	zsim.Log("pool.Get -> entry put by task %d at step %d", e.putBy, e.putAt)
	raceAcquire(poolAddr(p, e.v))
	return e.v
}

//go:norace
func (p *Pool) Put(v any) {
	if zsim.S == nil {
		p.real.Put(v)
		return
	}
	if zsim.Dying() {
		return
	}
	if v == nil {
		return
	}
	zsim.Yield("pool.Put")
	p.fix()
	s := zsim.S
	id := ident(v)
	if id != 0 {
		for _, e := range p.free {
			if e.id == id {
				zsim.Fail("pool.double_put", "the same entry was put into a pool twice (first by task %d at step %d, again by task %d)", e.putBy, e.putAt, zsim.CurID())
			}
		}
	}
	reg := region(v)
	for k := range reg {
		reg[k] = poisonByte(k)
	}
	if s.PoolPolicy() == polRandomMissDrop && s.Ch.Chance(1, 16) {
		zsim.Probe("pool_drop")
		zsim.Fault("pool_drop")
		return
	}
	raceRelease(poolAddr(p, v))
	p.free = append(p.free, poolEntry{v: v, id: id, region: reg, putBy: zsim.CurID(), putAt: s.StepNo()})
}

// poolAddr is the address the put -> get edge is attached to: the entry itself
// when it is a pointer (as the real sync.Pool does), the pool otherwise.
//
//go:norace
func poolAddr(p *Pool, v any) any {
	rv := reflect.ValueOf(v)
	if rv.Kind() == reflect.Ptr && !rv.IsNil() {
		return v
	}
	return &p.gen
}
