//go:build race

package ssync

import "github.com/rs/zerolog/zsim"

// The shims give the race detector the happens-before edges the real
// primitives have (mutex unlock -> lock, pool put -> get of the same entry).
func raceAcquire(p any) { zsim.RaceAcquire(p) }
func raceRelease(p any) { zsim.RaceRelease(p) }
