//go:build !race

package ssync

func raceAcquire(p any) {}
func raceRelease(p any) {}
