// Package zsim is a deterministic, seeded, single-baton scheduler with a
// discrete-event clock. Tasks are real goroutines; exactly one of them holds the
// baton at any time and every scheduling decision is an answer of Choices.
package zsim

import (
	"fmt"
	"os"
	"runtime"
	"runtime/debug"
	"strings"
	"time"
)

type taskState int

const (
	stRunnable taskState = iota
	stBlocked
	stSleeping
	stDone
)

// Task is one simulated thread of control.
type Task struct {
	ID     int
	Name   string
	wake   baton
	fin    chan struct{}
	joinAt uint32 // address used for the task-end -> Join happens-before edge
	state  taskState
	ready  func() bool
	why    string
	wakeAt int64
	kill   bool
	prio   int
	Steps  int
	// Solo counts the scheduling steps this task took while no other task could run:
	// progress that only a blocked or sleeping task (or the clock) could have provided
	// was not available to it. A task that piles these up inside one call is waiting
	// for such a party by spinning.
	Solo    int
	yielded bool // runtime.Gosched: the others go first
	// Tag is free for world use (e.g. producer index).
	Tag int
}

//go:norace
func (t *Task) Done() bool { return t.state == stDone }

// Violation is what an oracle reports.
type Violation struct {
	Clause string `json:"clause"`
	Msg    string `json:"msg"`
}

// TraceEv is one line of the human-readable trace.
type TraceEv struct {
	Step int    `json:"step"`
	Now  int64  `json:"now"`
	Task string `json:"task"`
	What string `json:"what"`
}

// Config bounds one run.
type Config struct {
	MaxSteps int
	MaxTime  int64 // simulated ns
	Trace    bool
}

// Sim is one run.
type Sim struct {
	cfg   Config
	Ch    *Choices
	tasks []*Task
	cur   *Task
	now   int64
	steps int
	dying bool
	ended bool
	done  chan struct{}

	Viol *Violation
	// Findings are violations of directed sub-programs that do not end the run
	// (used for known findings, so that they cannot starve the search).
	Findings  []Violation
	Exited    bool
	ExitCode  int
	Truncated bool
	Stuck     bool
	StuckInfo string
	EndInfo   string // task states when the run ended

	Trace []TraceEv
	hash  uint64

	strat    strategy
	armed    []bool
	runbuf   []*Task
	Gen      uint64
	Switches int // decisions that moved the baton to another task while the current one could continue
	Decides  int // decisions with >= 2 alternatives
	Probes   map[string]int
	Faults   map[string]int
	siteSw   map[uint64]struct{}
	lastSite int32
	polSet   bool
	budget   int64
	timers   []*simTimer
	chans    []*chanReg
	nextID   int
	// SimOps counts channel operations and task starts: work the simulator does (and
	// allocates for) on behalf of the code under test, for oracles that meter allocation.
	SimOps int
	nDone  int
	pol    int
	// ClockSkew is added to every clock reading (clock faults).
	ClockSkew int64
}

// hosted is set to "1" by the linker in the simulator's worker binary (vcheck builds it
// with -ldflags -X); it is empty in the pass-through builds (the repository's own tests on
// the instrumented copy), where goroutines are plain goroutines.
var hosted string

// Hosted reports whether this is the simulator's worker binary.
func Hosted() bool { return hosted != "" }

// Deep is set by the worker for the thorough tier: worlds widen their bounds
// (more tasks, more operations, larger rings).
var Deep bool

// S is the simulation in progress (nil outside a run). Only the baton holder
// (or the driver before start / after end) touches it.
var S *Sim

var genCounter uint64

// BaseTime is what the simulated clock shows at time zero.
var BaseTime = time.Unix(1_700_000_000, 0)

// Active reports whether the caller runs inside a live simulation task.
//
//go:norace
func Active() bool { return S != nil && !S.dying }

// Dying reports that the run is being torn down (tasks unwinding).
//
//go:norace
func Dying() bool { return S != nil && S.dying }

// Cur returns the running task.
//
//go:norace
func Cur() *Task {
	if S == nil {
		return nil
	}
	return S.cur
}

// CurID returns the id of the running task or -1.
//
//go:norace
func CurID() int {
	if S == nil || S.cur == nil {
		return -1
	}
	return S.cur.ID
}

//go:norace
func (s *Sim) Now() int64 { return s.now }

//go:norace
func (s *Sim) StepNo() int { return s.steps }

//go:norace
func (s *Sim) Hash() uint64 { return s.hash }

//go:norace
func (s *Sim) Tasks() []*Task {
	return s.tasks
}

// H folds a value into the trace hash.
//
//go:norace
func (s *Sim) H(v uint64) {
	s.hash = (s.hash ^ v) * 0x100000001b3
	s.hash ^= s.hash >> 29
}

// Probe counts a named rare condition.
//
//go:norace
func Probe(name string) {
	if S != nil && !RaceMode {
		S.Probes[name]++
	}
}

// Fault counts a fired fault of the given kind.
//
//go:norace
func Fault(kind string) {
	if S != nil && !RaceMode {
		S.Faults[kind]++
	}
}

// Log appends to the trace (only when tracing; never draws a choice).
//
//go:norace
func Log(format string, a ...interface{}) {
	s := S
	if s == nil || !s.cfg.Trace {
		return
	}
	name := "-"
	if s.cur != nil {
		name = s.cur.Name
	}
	msg := fmt.Sprintf(format, a...)
	before := cap(s.Trace)
	s.Trace = append(s.Trace, TraceEv{s.steps, s.now, name, msg})
	Overhead += uint64(len(msg)) + 64
	if n := cap(s.Trace); n != before {
		Overhead += uint64(n) * 56
	}
}

// Tracing is true when Log records.
//
//go:norace
func Tracing() bool { return S != nil && S.cfg.Trace }

// Run executes main as task 0 under a fresh simulation and returns it after all
// tasks have been torn down.
//
//go:norace
func Run(cfg Config, ch *Choices, main func()) *Sim {
	if cfg.MaxSteps == 0 {
		cfg.MaxSteps = 20000
	}
	if cfg.MaxTime == 0 {
		cfg.MaxTime = int64(3600 * time.Second)
	}
	genCounter++
	s := &Sim{cfg: cfg, Ch: ch, done: make(chan struct{}, 1), Gen: genCounter,
		Probes: map[string]int{}, Faults: map[string]int{}, siteSw: map[uint64]struct{}{}, lastSite: -1}
	s.armed = make([]bool, NSites)
	s.strat.init(s)
	S = s
	t := s.newTask("main", main)
	s.cur = t
	t.wake.signal()
	<-s.done
	// tear down: every task that is not done is resumed with the kill flag and
	// unwinds (runtime.Goexit) with the shims in pass-through mode.
	s.dying = true
	for i := 0; i < len(s.tasks); i++ { // tasks may not grow here, but be safe
		x := s.tasks[i]
		if x.state == stDone {
			continue
		}
		x.kill = true
		s.cur = x
		x.wake.signal()
		<-x.fin
	}
	S = nil
	return s
}

//go:norace
func (s *Sim) newTask(name string, f func()) *Task {
	t := &Task{ID: s.nextID, Name: name, wake: newBaton(), fin: make(chan struct{}, 1)}
	s.nextID++
	s.SimOps += 4
	t.prio = s.strat.newPrio(s)
	s.tasks = append(s.tasks, t)
	go s.taskMain(t, f)
	return t
}

// taskMain is the body of every task goroutine.
//
//go:norace
func (s *Sim) taskMain(t *Task, f func()) {
	defer s.taskExit(t)
	t.wake.await()
	if t.kill {
		return
	}
	f()
}

// taskExit runs when a task's function returns, panics or is torn down.
//
//go:norace
func (s *Sim) taskExit(t *Task) {
	r := recover()
	if r != nil && !s.dying && s.Viol == nil {
		s.Viol = &Violation{Clause: "panic", Msg: fmt.Sprintf("task %s panicked: %v\n%s", t.Name, r, trimStack(debug.Stack()))}
	}
	wasKilled := t.kill
	RaceRelease(&t.joinAt)
	t.state = stDone
	s.nDone++
	if wasKilled || s.dying {
		t.fin <- struct{}{}
		return
	}
	if r != nil {
		s.end()
		t.fin <- struct{}{} // never read; buffered
		return
	}
	if t.ID == 0 {
		// main returned: the run is over
		s.end()
		return
	}
	Log("task end")
	s.resched(t)
}

//go:norace
func trimStack(b []byte) string {
	lines := strings.Split(string(b), "\n")
	if len(lines) > 40 {
		lines = lines[:40]
	}
	return strings.Join(lines, "\n")
}

// end tells the driver that the run is over. The caller must not run task code
// afterwards (it parks or exits).
//
//go:norace
func (s *Sim) end() {
	if !s.ended {
		s.ended = true
		s.EndInfo = s.describe()
		s.done <- struct{}{}
	}
}

//go:norace
func (s *Sim) park(t *Task) {
	t.wake.await()
	if t.kill {
		runtime.Goexit()
	}
}

// resched is called by the running task t at a scheduling point, with t.state
// describing whether it can continue.
//
//go:norace
func (s *Sim) resched(t *Task) {
	next := s.pick(t)
	if next == t {
		return
	}
	if next == nil {
		s.end()
		if t.state == stDone {
			return
		}
		s.park(t)
		return
	}
	s.cur = next
	next.wake.signal()
	if t.state == stDone {
		return
	}
	s.park(t)
}

//go:norace
func (s *Sim) pick(t *Task) *Task {
	s.steps++
	t.Steps++
	if s.steps > s.cfg.MaxSteps {
		s.Truncated = true
		return nil
	}
	if s.nDone > 64 {
		// forget finished tasks (code under test that starts goroutines per call)
		k := 0
		for _, x := range s.tasks {
			if x.state != stDone {
				s.tasks[k] = x
				k++
			}
		}
		for i := k; i < len(s.tasks); i++ {
			s.tasks[i] = nil
		}
		s.tasks = s.tasks[:k]
		s.nDone = 0
	}
	for {
		s.fireTimers()
		run := s.runbuf[:0]
		tIn := false
		for _, x := range s.tasks {
			ok := false
			switch x.state {
			case stRunnable:
				ok = true
			case stBlocked:
				ok = x.ready()
			case stSleeping:
				ok = x.wakeAt <= s.now
			}
			if ok {
				if x == t {
					tIn = true
				} else {
					run = append(run, x)
				}
			}
		}
		if tIn {
			// canonical order: the current task first, so that answer 0 means "continue"
			// (no copy(): under -race it is a runtime call with race hooks even here)
			run = append(run, nil)
			for i := len(run) - 1; i > 0; i-- {
				run[i] = run[i-1]
			}
			run[0] = t
		}
		if tIn && len(run) == 1 {
			t.Solo++
		}
		if tIn && t.yielded && len(run) > 1 {
			// Gosched puts the caller behind every other runnable goroutine
			for i := 1; i < len(run); i++ {
				run[i-1] = run[i]
			}
			run = run[:len(run)-1]
			tIn = false
		}
		t.yielded = false
		s.runbuf = run
		if len(run) == 0 {
			min := int64(-1)
			for _, x := range s.tasks {
				if x.state == stSleeping && (min < 0 || x.wakeAt < min) {
					min = x.wakeAt
				}
			}
			for _, tm := range s.timers {
				if min < 0 || tm.at < min {
					min = tm.at
				}
			}
			if min < 0 {
				s.Stuck = true
				s.StuckInfo = s.describe()
				return nil
			}
			if min > s.cfg.MaxTime {
				s.Truncated = true
				return nil
			}
			s.now = min
			continue
		}
		idx := 0
		if len(run) > 1 {
			s.Decides++
			idx = s.Ch.Pick(len(run), func(r *RNG) int { return s.strat.decide(s, r, run, tIn) })
			if tIn && idx != 0 {
				s.Switches++
			}
		}
		next := run[idx]
		next.state = stRunnable
		next.ready = nil
		s.H(uint64(next.ID)<<32 | uint64(s.steps))
		return next
	}
}

//go:norace
func (s *Sim) describe() string {
	var b strings.Builder
	for _, x := range s.tasks {
		st := "runnable"
		switch x.state {
		case stBlocked:
			st = "blocked(" + x.why + ")"
		case stSleeping:
			st = fmt.Sprintf("sleeping(until %d)", x.wakeAt)
		case stDone:
			st = "done"
		}
		fmt.Fprintf(&b, "%s:%s ", x.Name, st)
	}
	return b.String()
}

// Describe returns the state of every task.
//
//go:norace
func (s *Sim) Describe() string { return s.describe() }

// ---- scheduling points used by shims, worlds and instrumented code ----

// Yield is an always-on scheduling point.
//
//go:norace
func Yield(what string) {
	s := S
	if s == nil || s.dying {
		return
	}
	if s.cfg.Trace {
		Log("%s", what)
	}
	s.resched(s.cur)
}

// Block parks the running task until ready() holds. ready must be free of side
// effects. In teardown it ends the goroutine.
//
//go:norace
func Block(why string, ready func() bool) {
	s := S
	if s == nil {
		panic("zsim.Block outside a simulation")
	}
	if s.dying {
		runtime.Goexit()
	}
	t := s.cur
	t.state = stBlocked
	t.ready = ready
	t.why = why
	if s.cfg.Trace {
		Log("block: %s", why)
	}
	s.resched(t)
}

// Go starts f as a new task (the rewritten form of a go statement). Outside a
// simulation it is a plain go statement.
//
//go:norace
func Go(f func()) {
	s := S
	if s == nil {
		if hosted != "" {
			// a goroutine that package initialisation (or code between two runs) wants to
			// start in the simulator's own process: it would still be running, outside any
			// baton, when the next simulation begins. It is not started; what it would have
			// served is rebuilt inside each run (sync.Once is per run).
			return
		}
		go f()
		return
	}
	if s.dying {
		return
	}
	name := fmt.Sprintf("g%d", s.nextID)
	s.newTask(name, f)
	Yield("go " + name)
}

// Spawn starts a named task on behalf of a world.
//
//go:norace
func Spawn(name string, f func()) *Task {
	s := S
	t := s.newTask(name, f)
	return t
}

// Join blocks until all given tasks are done.
//
//go:norace
func Join(ts ...*Task) {
	// the ready predicate below is evaluated by whichever task takes a scheduling
	// decision: it may only read memory written inside norace code, so work on a
	// private copy of the caller's slice (no copy(): see pick)
	cp := make([]*Task, len(ts))
	for i := range ts {
		cp[i] = ts[i]
	}
	ts = cp
	for {
		all := true
		for _, t := range ts {
			if t.state != stDone {
				all = false
			}
		}
		if all {
			for _, t := range ts {
				RaceAcquire(&t.joinAt)
			}
			return
		}
		Block("join", func() bool {
			for _, t := range ts {
				if t.state != stDone {
					return false
				}
			}
			return true
		})
	}
}

// AwaitClosed is the rewritten form of the statement `<-ch` on a signalling
// channel (only close is ever observed on it).
//
//go:norace
func AwaitClosed[T any](ch <-chan T) {
	s := S
	if s == nil {
		<-ch
		return
	}
	if s.dying {
		runtime.Goexit()
	}
	Yield("chan recv")
	closed := func() bool {
		select {
		case <-ch:
			return true
		default:
			return false
		}
	}
	for !closed() {
		Block("chan recv", closed)
	}
}

// Sleep is time.Sleep on the simulated clock.
//
//go:norace
func Sleep(d time.Duration) {
	s := S
	if s == nil {
		time.Sleep(d)
		return
	}
	if s.dying {
		runtime.Goexit()
	}
	t := s.cur
	if d < 0 {
		d = 0
	}
	t.state = stSleeping
	t.wakeAt = s.now + int64(d)
	if s.cfg.Trace {
		Log("sleep %v", d)
	}
	s.resched(t)
}

// Now is time.Now on the simulated clock.
//
//go:norace
func Now() time.Time {
	s := S
	if s == nil {
		return time.Now()
	}
	return BaseTime.Add(time.Duration(s.now + s.ClockSkew))
}

// Since is time.Since on the simulated clock.
//
//go:norace
func Since(t time.Time) time.Duration { return Now().Sub(t) }

// Exit is os.Exit: the simulated process dies here. No task is scheduled
// again; only what simulated endpoints already received survives.
//
//go:norace
func Exit(code int) {
	s := S
	if s == nil {
		os.Exit(code) // pass-through outside a simulation
	}
	if s.dying {
		runtime.Goexit()
	}
	s.Exited = true
	s.ExitCode = code
	Log("exit(%d)", code)
	t := s.cur // the driver changes s.cur as soon as end() has signalled
	s.end()
	s.park(t)
}

// Fail records a violation and ends the run.
//
//go:norace
func Fail(clause, format string, a ...interface{}) {
	s := S
	if s == nil {
		panic("zsim.Fail outside a simulation: " + clause + ": " + fmt.Sprintf(format, a...))
	}
	if s.dying {
		return
	}
	if s.Viol == nil {
		s.Viol = &Violation{Clause: clause, Msg: fmt.Sprintf(format, a...)}
		Log("VIOLATION %s: %s", clause, s.Viol.Msg)
	}
	t := s.cur
	s.end()
	s.park(t)
}

// EndRun ends the run without a violation (e.g. budget reached by the world).
//
//go:norace
func EndRun() {
	s := S
	if s.dying {
		return
	}
	t := s.cur
	s.end()
	s.park(t)
}

// ---- per-run knobs shared with the shims ----

// PoolPolicy is drawn once per run at the first pool operation:
// 0 LIFO, 1 FIFO, 2 random, 3 random with misses and drops.
//
//go:norace
func (s *Sim) PoolPolicy() int {
	if !s.polSet {
		s.polSet = true
		s.pol = s.Ch.Weighted(4, 2, 3, 3)
	}
	return s.pol
}

// SetPoolPolicy fixes the pool policy of this run.
//
//go:norace
func (s *Sim) SetPoolPolicy(p int) { s.polSet = true; s.pol = p }

// Settle lets every task that can run do so until all of them are blocked or
// asleep: the clock only advances when nothing is runnable, and every duration
// in the worlds is a multiple of 1µs, so nothing else wakes at now+1ns.
//
//go:norace
func Settle() {
	Sleep(1)
	Sleep(1)
}

// Finding records a violation observed by a directed sub-program without
// ending the run.
//
//go:norace
func Finding(clause, format string, a ...interface{}) {
	s := S
	if s == nil || s.dying {
		return
	}
	s.Findings = append(s.Findings, Violation{Clause: clause, Msg: fmt.Sprintf(format, a...)})
	Log("FINDING %s", clause)
}
