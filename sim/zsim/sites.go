package zsim

import "strings"

// Statement-level preemption points. zinstr inserts zsim.Y(id) before every
// statement of the instrumented packages and generates sites_gen.go, which
// sets NSites, SiteFiles and SiteLines.

type SiteFile struct {
	File     string // path relative to the module root
	From, To int    // ids [From,To)
}

var (
	NSites    int
	SiteFiles []SiteFile
	SiteLines []int32
	// SiteHits counts executions of each site inside simulations (coverage).
	SiteHits []uint32
)

// SiteName renders a site id as file:line.
//
//go:norace
func SiteName(id int) string {
	for _, f := range SiteFiles {
		if id >= f.From && id < f.To {
			return f.File + ":" + itoa(int(SiteLines[id]))
		}
	}
	return "?"
}

//go:norace
func itoa(n int) string {
	if n == 0 {
		return "0"
	}
	neg := n < 0
	if neg {
		n = -n
	}
	var b [20]byte
	i := len(b)
	for n > 0 {
		i--
		b[i] = byte('0' + n%10)
		n /= 10
	}
	if neg {
		i--
		b[i] = '-'
	}
	return string(b[i:])
}

// Y is the statement-level yield. Unarmed it costs two loads.
//
//go:norace
func Y(id int) {
	if S != nil {
		yslow(id)
	}
}

//go:norace
func yslow(id int) {
	s := S
	if s.dying {
		return
	}
	SiteHits[id]++
	if s.budget > 0 {
		s.budget--
		if s.budget == 0 {
			panic(BudgetExceeded)
		}
	}
	if !s.armed[id] {
		return
	}
	if s.cfg.Trace {
		Log("at %s", SiteName(id))
	}
	prev := s.cur
	s.resched(s.cur)
	_ = prev
}

// Arm arms a pseudo-random subset (num/den, selected by sel) of the sites of the
// files whose path matches one of the given prefixes/suffixes.
//
//go:norace
func (s *Sim) Arm(files []string, num, den int, sel uint32) {
	if num <= 0 {
		return
	}
	for _, f := range SiteFiles {
		match := false
		for _, p := range files {
			if p == "*" || f.File == p || strings.HasPrefix(f.File, p) {
				match = true
			}
		}
		if !match {
			continue
		}
		for id := f.From; id < f.To; id++ {
			h := Mix(uint64(sel), uint64(id))
			if int(h%uint64(den)) < num {
				s.armed[id] = true
			}
		}
	}
}

// ArmDraw draws the arming density and selection for this run (swarm style) and
// arms. Density 0 is the simplest answer.
//
//go:norace
func (s *Sim) ArmDraw(files []string) {
	k := s.Ch.Weighted(3, 2, 2, 2, 1)
	sel := s.Ch.Raw()
	switch k {
	case 1:
		s.Arm(files, 1, 16, sel)
	case 2:
		s.Arm(files, 1, 4, sel)
	case 3:
		s.Arm(files, 1, 2, sel)
	case 4:
		s.Arm(files, 1, 1, sel)
	}
}

type budgetErr struct{}

//go:norace
func (budgetErr) Error() string { return "zsim: statement budget exceeded" }

// RuntimeError makes the value a runtime.Error, so that code under test that
// recovers "ordinary" errors (the CBOR decoder does) lets it through.
//
//go:norace
func (budgetErr) RuntimeError() {}

// BudgetExceeded is the panic value raised when the statement budget set with
// SetBudget runs out (a termination bound for code that must be total).
var BudgetExceeded = budgetErr{}

// SetBudget bounds the number of instrumented statements executed from now on
// (0 = unlimited).
//
//go:norace
func SetBudget(n int64) {
	if S != nil {
		S.budget = n
	}
}

// Disarm switches every statement site off again.
//
//go:norace
func (s *Sim) Disarm() {
	for i := range s.armed {
		s.armed[i] = false
	}
}
