package zsim

// Scheduling strategies (search mode only; in replay the recorded decision is
// used and the strategy is never consulted).

const (
	StratWalk = iota
	StratSticky
	StratPCT
	StratStall
	StratRR
	nStrats
)

var StratNames = []string{"walk", "sticky", "pct", "stall", "rr"}

type strategy struct {
	kind     int
	stick    int // continue current with probability stick/10
	horizon  int
	changeAt []int // pct: steps at which the running task is demoted
	lowPrio  int
	// stall
	victimSel  int
	stallFrom  int
	stallSteps int
	rrNext     int
}

//go:norace
func (st *strategy) init(s *Sim) {
	c := s.Ch
	st.kind = c.Weighted(3, 3, 3, 2, 1)
	st.lowPrio = -1
	switch st.kind {
	case StratSticky:
		st.stick = 5 + c.Intn(5) // 0.5 .. 0.9
	case StratPCT:
		st.horizon = []int{30, 100, 300, 1000, 4000}[c.Intn(5)]
		d := 1 + c.Intn(4)
		for i := 0; i < d; i++ {
			st.changeAt = append(st.changeAt, 1+c.Intn(st.horizon))
		}
	case StratStall:
		st.horizon = []int{30, 100, 300, 1000, 4000}[c.Intn(5)]
		st.victimSel = c.Intn(64)
		st.stallFrom = 1 + c.Intn(st.horizon)
		st.stallSteps = []int{5, 20, 100, 1000, 1 << 30}[c.Intn(5)]
	}
}

// SetStrategy lets a world force a strategy for a phase (e.g. round-robin for
// bounded-liveness phases). It draws nothing.
//
//go:norace
func (s *Sim) SetStrategy(kind int) { s.strat.kind = kind }

// Strategy returns the strategy kind of this run.
//
//go:norace
func (s *Sim) Strategy() int { return s.strat.kind }

//go:norace
func (st *strategy) newPrio(s *Sim) int {
	// priorities are only used by pct; drawn from the rng without recording
	// (replay does not consult them)
	if s.Ch.Replay {
		return 0
	}
	return 1 + s.Ch.rng.Intn(1<<20)
}

//go:norace
func (st *strategy) decide(s *Sim, r *RNG, run []*Task, curIn bool) int {
	n := len(run)
	switch st.kind {
	case StratWalk:
		return r.Intn(n)
	case StratSticky:
		if curIn && r.Intn(10) < st.stick {
			return 0
		}
		return r.Intn(n)
	case StratPCT:
		for _, at := range st.changeAt {
			if at == s.steps && s.cur != nil {
				s.cur.prio = st.lowPrio
				st.lowPrio--
			}
		}
		best := 0
		for i, t := range run {
			if t.prio > run[best].prio {
				best = i
			}
		}
		return best
	case StratStall:
		if s.steps >= st.stallFrom && s.steps < st.stallFrom+st.stallSteps {
			victim := s.tasks[st.victimSel%len(s.tasks)]
			// run anything but the victim
			cands := 0
			for _, t := range run {
				if t != victim {
					cands++
				}
			}
			if cands > 0 {
				k := r.Intn(cands)
				if curIn && run[0] != victim && r.Intn(4) != 0 {
					return 0
				}
				for i, t := range run {
					if t != victim {
						if k == 0 {
							return i
						}
						k--
					}
				}
			}
			return 0
		}
		if curIn && r.Intn(10) < 6 {
			return 0
		}
		return r.Intn(n)
	case StratRR:
		// the runnable task with the smallest id greater than the last one
		best := -1
		for i, t := range run {
			if t.ID > st.rrNext && (best < 0 || t.ID < run[best].ID) {
				best = i
			}
		}
		if best < 0 {
			for i, t := range run {
				if best < 0 || t.ID < run[best].ID {
					best = i
				}
			}
		}
		st.rrNext = run[best].ID
		return best
	}
	return 0
}
