//go:build race

package zsim

import (
	"reflect"
	"runtime"
	"unsafe"
)

// RaceMode: see baton_norace.go.
const RaceMode = true

// baton is a plain word: no channel, mutex or sync/atomic operation, all of
// which the race detector would turn into happens-before edges between tasks
// and thereby hide every race of the code under test.
type baton struct{ flag uint32 }

func newBaton() baton { return baton{} }

//go:norace
//go:noinline
func (b *baton) signal() { b.flag = 1 }

//go:norace
//go:noinline
func (b *baton) await() {
	for b.flag == 0 {
		runtime.Gosched()
	}
	b.flag = 0
}

func addrOf(p interface{}) unsafe.Pointer {
	return unsafe.Pointer(reflect.ValueOf(p).Pointer())
}

// RaceAcquire / RaceRelease give the shims the edges the real primitives have
// (mutex unlock -> lock, pool put -> get, task end -> join).
func RaceAcquire(p interface{}) { runtime.RaceAcquire(addrOf(p)) }
func RaceRelease(p interface{}) { runtime.RaceReleaseMerge(addrOf(p)) }
