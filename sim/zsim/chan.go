package zsim

import (
	"context"
	"math/rand"
	"reflect"
	"runtime"
	"sync"
	"time"
)

// ---- channels, select and timers of the code under test ----
//
// zinstr turns every select into Select + a switch, `ch <- v` into Send, `<-ch`
// into Recv/Recv2, `close(ch)` into Close, `for v := range ch` into a Recv2 loop
// and the time/context timer constructors into their simulated counterparts.
//
// Buffered channels stay real: the operations on them are made with the
// non-blocking reflect calls, by the baton holder only. An unbuffered channel
// cannot be operated that way (a non-blocking send only succeeds while a
// receiver is parked inside a real, blocking receive, and no task ever is), so
// its rendezvous is emulated: a task that finds no partner leaves a waiter
// record on the channel and parks in the scheduler; the partner that arrives
// later completes the exchange through that record. What the simulator owns in
// both cases is the waiting: a parked task is runnable again exactly when its
// exchange was completed or one of its cases can be carried out (the readiness
// test is free of side effects: buffer fill, registered partners, closed state),
// so a state in which only such tasks remain and no timer is pending is a stuck
// state like any other. When several cases of a select are ready, which one is
// taken is an answer of Choices (Go picks at random there), so it is explored
// and replays.

// SelCase is one communication clause of a select.
type SelCase struct {
	ch   reflect.Value // for identity, len and cap only
	send bool
	val  any
	// the operation itself, non-blocking and statically typed (no reflection, no
	// allocation unless a value moves)
	tryRecv func() (v any, sent bool, done bool)
	trySend func() bool
}

// RecvCase is `case ... <-ch`.
func RecvCase[T any](ch <-chan T) SelCase {
	return SelCase{ch: reflect.ValueOf(ch), tryRecv: func() (any, bool, bool) {
		select {
		case v, ok := <-ch:
			return v, ok, true
		default:
			return nil, false, false
		}
	}}
}

// SendCase is `case ch <- v`.
func SendCase[T any](ch chan<- T, v T) SelCase {
	return SelCase{ch: reflect.ValueOf(ch), send: true, val: v, trySend: func() bool {
		select {
		case ch <- v: // panics on a closed channel, as it must
			return true
		default:
			return false
		}
	}}
}

// SelVal gives the value received by the chosen case its static type (inferred from
// the channel operand).
func SelVal[T any](ch <-chan T, x any) T {
	v, _ := x.(T)
	return v
}

// SelVal2 is SelVal for `case v, ok := <-ch`.
func SelVal2[T any](ch <-chan T, x any, ok bool) (T, bool) {
	v, _ := x.(T)
	return v, ok
}

type chanWaiter struct {
	task  *Task
	cases []SelCase
	done  bool
	k     int
	val   any
	ok    bool
	sync  uint32 // address for the happens-before edges of the exchange (race mode)
}

// chanReg lists the tasks parked on one unbuffered channel. It exists only while
// there are any (they keep the channel alive, so its address identifies it).
type chanReg struct {
	id      uintptr
	closed  bool // closed (by instrumented code) while tasks were parked on it
	waiters []*chanWaiter
}

//go:norace
func (s *Sim) chanReg(ch reflect.Value, create bool) *chanReg {
	id := ch.Pointer()
	for _, r := range s.chans {
		if r.id == id {
			return r
		}
	}
	if !create {
		return nil
	}
	r := &chanReg{id: id}
	s.chans = append(s.chans, r)
	return r
}

// partner finds a parked task with a case on ch in the opposite direction.
//
//go:norace
func (s *Sim) partner(ch reflect.Value, wantSend bool) (*chanWaiter, int) {
	r := s.chanReg(ch, false)
	if r == nil {
		return nil, 0
	}
	for _, w := range r.waiters {
		if w.done {
			continue
		}
		for j := range w.cases {
			c := &w.cases[j]
			if c.send == wantSend && c.ch.IsValid() && !c.ch.IsNil() && c.ch.Pointer() == r.id {
				return w, j
			}
		}
	}
	return nil, 0
}

//go:norace
func (s *Sim) unregister(w *chanWaiter) {
	for ri := 0; ri < len(s.chans); {
		r := s.chans[ri]
		for i := 0; i < len(r.waiters); {
			if r.waiters[i] == w {
				for k := i; k+1 < len(r.waiters); k++ {
					r.waiters[k] = r.waiters[k+1]
				}
				r.waiters[len(r.waiters)-1] = nil
				r.waiters = r.waiters[:len(r.waiters)-1]
				continue
			}
			i++
		}
		if len(r.waiters) == 0 {
			for k := ri; k+1 < len(s.chans); k++ {
				s.chans[k] = s.chans[k+1]
			}
			s.chans[len(s.chans)-1] = nil
			s.chans = s.chans[:len(s.chans)-1]
			continue
		}
		ri++
	}
}

// Select is a select statement: it returns the index of the case that was
// carried out (-1: the default clause), and for a receive the value and whether
// it was sent (false: the channel is closed).
//
//go:norace
func Select(hasDefault bool, cases ...SelCase) (int, any, bool) {
	s := S
	if s == nil {
		return realSelect(hasDefault, cases)
	}
	if s.dying {
		// teardown: whatever can be done without waiting is done, otherwise the goroutine ends
		k, x, ok := realSelect(true, cases)
		if k < 0 && !hasDefault {
			runtime.Goexit()
		}
		return k, x, ok
	}
	s.SimOps++
	Yield("channel operation")
	var readyBuf [8]int
	for {
		ready := readyBuf[:0]
		for i := range cases {
			ok, took, x, sent := s.caseReady(&cases[i], true)
			if took {
				// a receive that could only be probed by doing it (see caseReady): done
				return i, x, sent
			}
			if ok {
				ready = append(ready, i)
			}
		}
		if len(ready) > 0 {
			i := ready[0]
			if len(ready) > 1 {
				Probe("select_several_ready")
				i = ready[s.Ch.Intn(len(ready))]
			}
			return s.carryOut(cases, i)
		}
		if hasDefault {
			return -1, nil, false
		}
		// park: leave a record on every unbuffered channel involved (and on every channel
		// sent to: Close marks those records)
		t := s.cur
		w := &chanWaiter{task: t, cases: cases}
		for i := range cases {
			c := &cases[i]
			if c.ch.IsValid() && !c.ch.IsNil() && (c.ch.Cap() == 0 || c.send) {
				r := s.chanReg(c.ch, true)
				r.waiters = append(r.waiters, w)
			}
		}
		RaceRelease(&w.sync)
		t.state = stBlocked
		t.why = "channel operation / select"
		t.ready = w.ready
		if s.cfg.Trace {
			Log("block: channel operation")
		}
		s.resched(t)
		s.unregister(w)
		if w.done {
			RaceAcquire(&w.sync)
			return w.k, w.val, w.ok
		}
	}
}

// ready is the predicate of a task parked in Select: its exchange was completed by a
// partner, or one of its cases can now be carried out.
//
//go:norace
func (w *chanWaiter) ready() bool {
	if w.done {
		return true
	}
	s := S
	for i := range w.cases {
		ok, took, x, sent := s.caseReady(&w.cases[i], false)
		if took {
			s.unregister(w)
			w.k, w.val, w.ok, w.done = i, x, sent, true
			return true
		}
		if ok {
			return true
		}
	}
	return false
}

// caseReady tells whether a case can be carried out now, without side effects: a
// buffered channel by its fill, an unbuffered one by the tasks parked on it. Whether
// a channel has been closed can only be learnt by operating on it: a receive from an
// empty closed channel takes nothing away, a send to a closed channel panics (caught
// here, raised again where the case is carried out). Should such a probe ever complete
// an exchange (with a goroutine that is not a task, parked in a real operation: there
// is none), the operation has happened and is reported as such (took).
//
//go:norace
func (s *Sim) caseReady(c *SelCase, own bool) (ok, took bool, x any, sent bool) {
	if !c.ch.IsValid() || c.ch.IsNil() {
		return
	}
	n := c.ch.Cap()
	if c.send {
		if n > 0 && c.ch.Len() < n {
			return true, false, nil, false
		}
		if n == 0 {
			if w, _ := s.partner(c.ch, false); w != nil {
				return true, false, nil, false
			}
		}
		// closed? A send on a closed channel must panic (in the sender, when it carries
		// the case out), also when the buffer is full. The sender itself finds out with the
		// non-blocking send: on an open channel it does nothing here (full, or nobody parked
		// in a real receive). While the sender is parked the scheduler asks on its behalf,
		// from other goroutines: there the answer comes from Close having marked the record
		// (a real send attempt from a third goroutine would be, to the race detector, a send
		// racing with the close).
		if !own {
			r := s.chanReg(c.ch, false)
			return r != nil && r.closed, false, nil, false
		}
		closed, sent := probeSend(c)
		return closed || sent, sent, nil, false
	}
	if c.ch.Len() > 0 {
		return true, false, nil, false
	}
	if n == 0 {
		if w, _ := s.partner(c.ch, true); w != nil {
			return true, false, nil, false
		}
	}
	if v, sent, done := c.tryRecv(); done {
		if sent {
			return true, true, v, true
		}
		return true, false, nil, false // closed: receiving from it again gives the same
	}
	return
}

//go:norace
func probeSend(c *SelCase) (closed, sent bool) {
	defer func() {
		if recover() != nil {
			closed = true
		}
	}()
	return false, c.trySend()
}

// carryOut performs case i, which was found ready.
//
//go:norace
func (s *Sim) carryOut(cases []SelCase, i int) (int, any, bool) {
	c := &cases[i]
	if c.send {
		if c.ch.Cap() == 0 {
			if w, j := s.partner(c.ch, false); w != nil {
				RaceAcquire(&w.sync)
				w.k, w.val, w.ok, w.done = j, c.val, true, true
				RaceRelease(&w.sync)
				s.unregister(w)
				Probe("rendezvous")
				return i, nil, false
			}
		}
		if !c.trySend() {
			panic("zsim: a send found ready could not be carried out")
		}
		return i, nil, false
	}
	if c.ch.Len() == 0 && c.ch.Cap() == 0 {
		if w, j := s.partner(c.ch, true); w != nil {
			RaceAcquire(&w.sync)
			v := w.cases[j].val
			w.k, w.done = j, true
			RaceRelease(&w.sync)
			s.unregister(w)
			Probe("rendezvous")
			return i, v, true
		}
	}
	v, sent, done := c.tryRecv()
	if !done {
		panic("zsim: a receive found ready could not be carried out")
	}
	return i, v, sent
}

// realSelect is the select statement outside a simulation.
func realSelect(hasDefault bool, cases []SelCase) (int, any, bool) {
	rc := make([]reflect.SelectCase, 0, len(cases)+1)
	for _, c := range cases {
		switch {
		case c.send:
			rc = append(rc, reflect.SelectCase{Dir: reflect.SelectSend, Chan: c.ch, Send: sendValue(c)})
		default:
			rc = append(rc, reflect.SelectCase{Dir: reflect.SelectRecv, Chan: c.ch})
		}
	}
	if hasDefault {
		rc = append(rc, reflect.SelectCase{Dir: reflect.SelectDefault})
	}
	k, x, ok := reflect.Select(rc)
	if hasDefault && k == len(cases) {
		return -1, nil, false
	}
	if cases[k].send {
		return k, nil, false
	}
	return k, x.Interface(), ok
}

// sendValue gives the value of a send case the channel's element type (a nil interface
// value has no type of its own).
func sendValue(c SelCase) reflect.Value {
	if c.val == nil {
		return reflect.Zero(c.ch.Type().Elem())
	}
	return reflect.ValueOf(c.val)
}

// Send is `ch <- v`.
func Send[T any](ch chan<- T, v T) {
	if S == nil {
		ch <- v
		return
	}
	Select(false, SendCase(ch, v))
}

// Recv is `<-ch` with its value.
func Recv[T any](ch <-chan T) T {
	v, _ := Recv2(ch)
	return v
}

// Recv2 is `v, ok := <-ch`.
func Recv2[T any](ch <-chan T) (T, bool) {
	if S == nil {
		v, ok := <-ch
		return v, ok
	}
	_, x, ok := Select(false, RecvCase(ch))
	v, _ := x.(T)
	return v, ok
}

// Close is close(ch).
func Close[T any](ch chan<- T) {
	Yield("close")
	markClosed(reflect.ValueOf(ch))
	close(ch)
}

//go:norace
func markClosed(ch reflect.Value) {
	if s := S; s != nil && !s.dying && ch.IsValid() && !ch.IsNil() {
		if r := s.chanReg(ch, false); r != nil {
			r.closed = true
		}
	}
}

// BlockForever is `select {}`.
//
//go:norace
func BlockForever() {
	if S == nil {
		select {}
	}
	Block("select {}", func() bool { return false })
}

// Gosched is runtime.Gosched.
//
//go:norace
func Gosched() {
	s := S
	if s == nil {
		runtime.Gosched()
		return
	}
	if s.dying {
		return
	}
	s.cur.yielded = true
	Yield("Gosched")
}

// ---- timers ----

type simTimer struct {
	at      int64
	period  int64
	ch      chan time.Time
	fn      func() // AfterFunc: started as a new task when the timer fires
	plainFn func() // not instrumented code (a context's cancel function): called in place
}

//go:norace
func (s *Sim) fireTimers() {
	for i := 0; i < len(s.timers); {
		tm := s.timers[i]
		if tm.at > s.now {
			i++
			continue
		}
		if tm.period > 0 {
			tm.at += tm.period
			i++
		} else {
			for k := i; k+1 < len(s.timers); k++ {
				s.timers[k] = s.timers[k+1]
			}
			s.timers = s.timers[:len(s.timers)-1]
		}
		switch {
		case tm.plainFn != nil:
			tm.plainFn()
		case tm.fn != nil:
			s.newTask("timer-func", tm.fn)
		default:
			select {
			case tm.ch <- BaseTime.Add(time.Duration(s.now)):
			default:
			}
		}
	}
}

//go:norace
func (s *Sim) addTimer(tm *simTimer, d time.Duration) {
	if d < 0 {
		d = 0
	}
	tm.at = s.now + int64(d)
	s.timers = append(s.timers, tm)
}

//go:norace
func (s *Sim) delTimer(tm *simTimer) bool {
	for i, x := range s.timers {
		if x == tm {
			for k := i; k+1 < len(s.timers); k++ {
				s.timers[k] = s.timers[k+1]
			}
			s.timers = s.timers[:len(s.timers)-1]
			return true
		}
	}
	return false
}

// After is time.After on the simulated clock.
//
//go:norace
func After(d time.Duration) <-chan time.Time {
	s := S
	if s == nil || s.dying {
		return time.After(d)
	}
	tm := &simTimer{ch: make(chan time.Time, 1)}
	s.addTimer(tm, d)
	return tm.ch
}

// Tick is time.Tick on the simulated clock.
//
//go:norace
func Tick(d time.Duration) <-chan time.Time {
	s := S
	if s == nil || s.dying {
		return time.Tick(d)
	}
	if d <= 0 {
		return nil
	}
	tm := &simTimer{period: int64(d), ch: make(chan time.Time, 1)}
	s.addTimer(tm, d)
	return tm.ch
}

// Timer is time.Timer on the simulated clock.
type Timer struct {
	C    <-chan time.Time
	tm   *simTimer
	gen  uint64
	real *time.Timer
}

// NewTimer is time.NewTimer.
//
//go:norace
func NewTimer(d time.Duration) *Timer {
	s := S
	if s == nil || s.dying {
		r := time.NewTimer(d)
		return &Timer{C: r.C, real: r}
	}
	tm := &simTimer{ch: make(chan time.Time, 1)}
	s.addTimer(tm, d)
	return &Timer{C: tm.ch, tm: tm, gen: s.Gen}
}

// AfterFunc is time.AfterFunc: f runs as a task of its own when the timer fires.
//
//go:norace
func AfterFunc(d time.Duration, f func()) *Timer {
	s := S
	if s == nil || s.dying {
		if hosted != "" {
			return &Timer{} // see Go
		}
		return &Timer{real: time.AfterFunc(d, f)}
	}
	tm := &simTimer{fn: f}
	s.addTimer(tm, d)
	return &Timer{tm: tm, gen: s.Gen}
}

//go:norace
func (t *Timer) live() *Sim {
	s := S
	if s == nil || s.dying || t.tm == nil || t.gen != s.Gen {
		return nil
	}
	return s
}

// Stop is (*time.Timer).Stop.
//
//go:norace
func (t *Timer) Stop() bool {
	if t.real != nil {
		return t.real.Stop()
	}
	s := t.live()
	if s == nil {
		return false
	}
	Yield("timer.Stop")
	return s.delTimer(t.tm)
}

// Reset is (*time.Timer).Reset.
//
//go:norace
func (t *Timer) Reset(d time.Duration) bool {
	if t.real != nil {
		return t.real.Reset(d)
	}
	s := t.live()
	if s == nil {
		return false
	}
	Yield("timer.Reset")
	was := s.delTimer(t.tm)
	s.addTimer(t.tm, d)
	return was
}

// Ticker is time.Ticker on the simulated clock.
type Ticker struct {
	C    <-chan time.Time
	tm   *simTimer
	gen  uint64
	real *time.Ticker
}

// NewTicker is time.NewTicker.
//
//go:norace
func NewTicker(d time.Duration) *Ticker {
	s := S
	if s == nil || s.dying {
		r := time.NewTicker(d)
		return &Ticker{C: r.C, real: r}
	}
	if d <= 0 {
		panic("non-positive interval for NewTicker")
	}
	tm := &simTimer{period: int64(d), ch: make(chan time.Time, 1)}
	s.addTimer(tm, d)
	return &Ticker{C: tm.ch, tm: tm, gen: s.Gen}
}

// Stop is (*time.Ticker).Stop.
//
//go:norace
func (t *Ticker) Stop() {
	if t.real != nil {
		t.real.Stop()
		return
	}
	if s := S; s != nil && !s.dying && t.gen == s.Gen {
		s.delTimer(t.tm)
	}
}

// Reset is (*time.Ticker).Reset.
//
//go:norace
func (t *Ticker) Reset(d time.Duration) {
	if t.real != nil {
		t.real.Reset(d)
		return
	}
	if s := S; s != nil && !s.dying && t.gen == s.Gen {
		s.delTimer(t.tm)
		t.tm.period = int64(d)
		s.addTimer(t.tm, d)
	}
}

// ---- package context ----

// CtxAfterFunc is context.AfterFunc: f runs as a task of its own once ctx is done.
func CtxAfterFunc(ctx context.Context, f func()) (stop func() bool) {
	s := S
	if s == nil || s.dying {
		if hosted != "" {
			return func() bool { return true } // see Go
		}
		return context.AfterFunc(ctx, f)
	}
	st := &afterFuncState{}
	done := ctx.Done()
	Go(func() {
		if done == nil {
			BlockForever()
		}
		for st.get() == 0 {
			if k, _, _ := Select(true, RecvCase(done)); k == 0 {
				break
			}
			st.wait(done)
		}
		if !st.cas(0, 2) {
			return
		}
		f()
	})
	return func() bool { return st.cas(0, 1) }
}

// afterFuncState: 0 waiting, 1 stopped, 2 started.
type afterFuncState struct{ v int }

//go:norace
func (a *afterFuncState) get() int { return a.v }

//go:norace
func (a *afterFuncState) cas(old, new int) bool {
	if a.v == old {
		a.v = new
		return true
	}
	return false
}

//go:norace
func (a *afterFuncState) wait(done <-chan struct{}) {
	Block("context.AfterFunc", func() bool {
		if a.v != 0 {
			return true
		}
		select {
		case <-done:
			return true
		default:
			return false
		}
	})
}

type deadlineCtx struct {
	context.Context
	deadline time.Time
	mu       sync.Mutex
	timedOut bool
}

func (c *deadlineCtx) Deadline() (time.Time, bool) { return c.deadline, true }

func (c *deadlineCtx) Err() error {
	err := c.Context.Err()
	c.mu.Lock()
	defer c.mu.Unlock()
	if err != nil && c.timedOut {
		return context.DeadlineExceeded
	}
	return err
}

// WithDeadline is context.WithDeadline against the simulated clock.
func WithDeadline(parent context.Context, d time.Time) (context.Context, context.CancelFunc) {
	s := S
	if s == nil || s.dying {
		return context.WithDeadline(parent, d)
	}
	if cur, ok := parent.Deadline(); ok && cur.Before(d) {
		return context.WithCancel(parent)
	}
	inner, cancel := context.WithCancel(parent)
	c := &deadlineCtx{Context: inner, deadline: d}
	tm := &simTimer{}
	tm.plainFn = func() {
		c.mu.Lock()
		if inner.Err() == nil {
			c.timedOut = true
		}
		c.mu.Unlock()
		cancel()
	}
	s.addTimer(tm, d.Sub(Now()))
	gen := s.Gen
	return c, func() {
		if s := S; s != nil && s.Gen == gen && !s.dying {
			s.delTimer(tm)
		}
		cancel()
	}
}

// WithTimeout is context.WithTimeout against the simulated clock.
func WithTimeout(parent context.Context, d time.Duration) (context.Context, context.CancelFunc) {
	if S == nil || S.dying {
		return context.WithTimeout(parent, d)
	}
	return WithDeadline(parent, Now().Add(d))
}

// Until is time.Until on the simulated clock.
//
//go:norace
func Until(t time.Time) time.Duration { return t.Sub(Now()) }

// NumCPU and GOMAXPROCS: inside a simulation the machine has four processors, whatever
// the worker process runs on (the same seed must give the same run everywhere).
//
//go:norace
func NumCPU() int {
	if S == nil {
		return runtime.NumCPU()
	}
	return 4
}

//go:norace
func GOMAXPROCS(n int) int {
	if S == nil {
		return runtime.GOMAXPROCS(n)
	}
	return 4
}

// The top-level functions of math/rand (the unseeded global source): inside a
// simulation their answers are answers of the run's choice stream.

//go:norace
func randN(n uint64) uint64 {
	s := S
	if n <= 1 {
		return 0
	}
	if n <= 1<<30 {
		return uint64(s.Ch.Intn(int(n)))
	}
	// three 30-bit draws (int is 32 bits wide in the 32-bit batch)
	return (uint64(s.Ch.Intn(1<<30))<<60 | uint64(s.Ch.Intn(1<<30))<<30 | uint64(s.Ch.Intn(1<<30))) % n
}

func RandIntn(n int) int {
	if S == nil || S.dying {
		return rand.Intn(n)
	}
	if n <= 0 {
		panic("invalid argument to Intn")
	}
	return int(randN(uint64(n)))
}

func RandInt63n(n int64) int64 {
	if S == nil || S.dying {
		return rand.Int63n(n)
	}
	if n <= 0 {
		panic("invalid argument to Int63n")
	}
	return int64(randN(uint64(n)))
}

func RandInt31n(n int32) int32 {
	if S == nil || S.dying {
		return rand.Int31n(n)
	}
	if n <= 0 {
		panic("invalid argument to Int31n")
	}
	return int32(randN(uint64(n)))
}

func RandInt63() int64 {
	if S == nil || S.dying {
		return rand.Int63()
	}
	return int64(randN(1 << 62))
}

func RandInt31() int32 {
	if S == nil || S.dying {
		return rand.Int31()
	}
	return int32(randN(1 << 31))
}

func RandInt() int {
	if S == nil || S.dying {
		return rand.Int()
	}
	return int(randN(1 << 62))
}

func RandUint32() uint32 {
	if S == nil || S.dying {
		return rand.Uint32()
	}
	return uint32(randN(1 << 32))
}

func RandUint64() uint64 {
	if S == nil || S.dying {
		return rand.Uint64()
	}
	return randN(1<<62) | randN(4)<<62
}

func RandFloat64() float64 {
	if S == nil || S.dying {
		return rand.Float64()
	}
	return float64(randN(1<<53)) / (1 << 53)
}

func RandFloat32() float32 {
	if S == nil || S.dying {
		return rand.Float32()
	}
	return float32(randN(1<<24)) / (1 << 24)
}

func RandPerm(n int) []int {
	if S == nil || S.dying {
		return rand.Perm(n)
	}
	m := make([]int, n)
	for i := range m {
		j := int(randN(uint64(i + 1)))
		m[i] = m[j]
		m[j] = i
	}
	return m
}

func RandShuffle(n int, swap func(i, j int)) {
	if S == nil || S.dying {
		rand.Shuffle(n, swap)
		return
	}
	for i := n - 1; i > 0; i-- {
		swap(i, int(randN(uint64(i+1))))
	}
}
