package worlds

import (
	"bytes"
	"context"
	"errors"
	"fmt"
	"io"
	"strings"
	"time"

	"github.com/rs/zerolog"
	"github.com/rs/zerolog/zsim"
)

// C05: derived loggers are independent values. Tasks share a growing forest of
// loggers. Every emitted event is compared with what a logger built from
// scratch, in isolation, from the node's model (destination, field groups,
// hooks, level, sampler, stack flag, Go context) emits for the same event.
type c05World struct{}

func init() { register("c05", c05World{}) }

func (c05World) Props() []string { return []string{"C05"} }

func (c05World) Components() (real, stub []string) {
	return []string{"Logger.With/Level/Sample/Hook/Output/UpdateContext", "Context field methods, Ctx, Stack", "Logger.newEvent / Event lifecycle with several events open at once", "Dict/Arr/Object marshalers reading GetCtx", "event/array pools (through the pool shim)"},
		[]string{"destination writers (recording per task)", "hooks and marshalers (record the Go context they see, yield)", "samplers (stateless by level, BasicSampler{0|1}, a counting every-2nd/3rd sampler in single-task runs)", "ErrorStackMarshaler (constant)", "sync.Pool policy"}
}

type c5Key struct{}

type c5Model struct {
	sink    int
	fields  [][]fop
	hooks   []string
	level   zerolog.Level
	sampler int // 0 none, 1 admits >= Warn, 2 BasicSampler{1}, 3 BasicSampler{0}, 4 stateful (samp)
	samp    *c5Stateful
	stack   bool
	ctxID   int
}

func (m c5Model) clone() c5Model {
	n := m
	n.fields = append([][]fop{}, m.fields...)
	n.hooks = append([]string{}, m.hooks...)
	return n
}

func (m c5Model) String() string {
	var f []string
	for _, g := range m.fields {
		f = append(f, opsString(g))
	}
	return fmt.Sprintf("{sink=%d fields=[%s] hooks=%v level=%v sampler=%d stack=%v ctx=%d}", m.sink, strings.Join(f, " | "), m.hooks, m.level, m.sampler, m.stack, m.ctxID)
}

type c5Node struct {
	id       int
	lg       zerolog.Logger
	m        c5Model
	path     string
	fromWith bool // produced by With()...Logger(): UpdateContext may be applied to it
}

type c5Write struct {
	sink int
	b    []byte
}

type c5Seen struct {
	where string
	id    int
}

type c5Task struct {
	scratch []zerolog.Hook
	cap     *[]c5Write // capture of this task's writes to the shared sinks
	inRef   bool
	seen    []c5Seen
}

type c5Run struct {
	ch     *zsim.Choices
	nodes  []*c5Node
	sinks  []*c5Sink
	ctxs   []context.Context
	tasks  map[int]*c5Task
	nEv    int
	single bool

	stateful   []*c5Stateful
	verdict    map[string]int // event id -> -1 sampler not consulted, 0 rejected, 1 admitted
	refVerdict int
}

// openOn opens ev on node n. With stateful samplers about (single-task runs) it also
// checks who was consulted: the node's own sampler exactly once if the node's level lets
// the event through, and no sampler otherwise — an event that the level rejects is not
// part of the population a sampler samples, and must not use up a sampler's state.
// openVia opens ev on n's logger, sometimes through a variable of the caller that is
// given another logger right afterwards: an event belongs to the logger it was started
// on, whatever the variable holds by the time the event is finished.
func (r *c5Run) openVia(n *c5Node, ev c5Event) *zerolog.Event {
	if !r.ch.Chance(1, 4) {
		return r.open(&n.lg, ev)
	}
	v := new(zerolog.Logger)
	*v = n.lg
	e := r.open(v, ev)
	*v = r.nodes[r.ch.Intn(len(r.nodes))].lg
	zsim.Probe("logger_variable_reused")
	return e
}

func (r *c5Run) openOn(n *c5Node, ev c5Event) *zerolog.Event {
	if len(r.stateful) == 0 {
		return r.openVia(n, ev)
	}
	before := make([]int, len(r.stateful))
	for i, s := range r.stateful {
		before[i] = s.count
	}
	e := r.openVia(n, ev)
	eligible := ev.level >= n.m.level
	v := -1
	for i, s := range r.stateful {
		d := s.count - before[i]
		want := 0
		if s == n.m.samp && eligible {
			want = 1
		}
		if d != want {
			zsim.Fail("C05.sampler", "node %d (%s, level %v) started event %s at level %v: stateful sampler #%d%s was consulted %d time(s), expected %d (a sampler sees exactly the events that its logger's level lets through, once each)", n.id, n.path, n.m.level, ev.id, ev.level, s.id, map[bool]string{true: " (the node's own)", false: " (not the node's)"}[s == n.m.samp], d, want)
		}
		if s == n.m.samp && d == 1 {
			v = 0
			if s.last {
				v = 1
			}
		}
	}
	if r.verdict == nil {
		r.verdict = map[string]int{}
	}
	r.verdict[ev.id] = v
	return e
}

func (r *c5Run) task() *c5Task {
	id := zsim.CurID()
	t := r.tasks[id]
	if t == nil {
		t = &c5Task{}
		r.tasks[id] = t
	}
	return t
}

type c5Sink struct {
	r   *c5Run
	idx int
}

func (s *c5Sink) Write(p []byte) (int, error) {
	if zsim.Dying() {
		return len(p), nil
	}
	t := s.r.task()
	if t.cap == nil {
		// written by a goroutine that is not logging itself (a helper of the writer): it
		// belongs to the only emission in progress, if there is exactly one
		var only *c5Task
		n := 0
		for _, x := range s.r.tasks {
			if x.cap != nil {
				only = x
				n++
			}
		}
		if n != 1 {
			zsim.Fail("C05.bytes", "sink %d received a write outside any emission of task %d: %s", s.idx, zsim.CurID(), clip(p, 100))
		}
		t = only
	}
	*t.cap = append(*t.cap, c5Write{s.idx, append([]byte{}, p...)})
	zsim.Yield("sink.Write")
	return len(p), nil
}

type c5RefSink struct{ ws *[]c5Write }

func (s c5RefSink) Write(p []byte) (int, error) {
	*s.ws = append(*s.ws, c5Write{-1, append([]byte{}, p...)})
	return len(p), nil
}

// seenCtx is what GetCtx reports for a logger with this model: ids 4 and 5 are a
// derivation that was explicitly given the background context and nil (both
// replace an inherited Go context, and both read back as the background context).
func (m c5Model) seenCtx() int {
	if m.ctxID >= 4 {
		return 0
	}
	return m.ctxID
}

func ctxID(c context.Context) int {
	if c == nil {
		return -1
	}
	if v, ok := c.Value(c5Key{}).(int); ok {
		return v
	}
	return 0 // background
}

// c5DiscardHook discards the events whose message selects them.
type c5DiscardHook struct{}

func (c5DiscardHook) Run(e *zerolog.Event, l zerolog.Level, msg string) {
	zsim.Yield("discard hook")
	if fnv([]byte(msg))%3 == 0 {
		zsim.Probe("hook_discards_event")
		e.Discard()
	}
}

type c5Hook struct {
	r    *c5Run
	name string
}

func (h c5Hook) Run(e *zerolog.Event, l zerolog.Level, msg string) {
	zsim.Yield("hook")
	t := h.r.task()
	if !t.inRef {
		t.seen = append(t.seen, c5Seen{"hook " + h.name, ctxID(e.GetCtx())})
	}
	e.Str("hk_"+h.name, "1")
}

// c5CtxM is an object marshaler that records the Go context it can see.
type c5CtxM struct {
	r     *c5Run
	where string
}

func (m c5CtxM) MarshalZerologObject(e *zerolog.Event) {
	zsim.Yield("marshal")
	t := m.r.task()
	if !t.inRef {
		t.seen = append(t.seen, c5Seen{m.where, ctxID(e.GetCtx())})
	}
	e.Str("m", "1")
}

type c5ArrM struct{ m c5CtxM }

func (a c5ArrM) MarshalZerologArray(arr *zerolog.Array) { arr.Object(a.m) }

type c5LvlSampler struct{}

func (c5LvlSampler) Sample(l zerolog.Level) bool { return l >= zerolog.WarnLevel }

// c5Stateful is a sampler with a memory, as BasicSampler{N>1} or BurstSampler have: its
// verdict depends on how many times it has been consulted. It is shared by every logger
// derived below the Sample() call that installed it. Only used in single-task runs, where
// the sequence of consultations is determined: exactly one per event that the level of
// the logging node (and the global level) lets through, none for the others.
type c5Stateful struct {
	id, period int
	count      int
	last       bool
}

func (s *c5Stateful) Sample(l zerolog.Level) bool {
	s.count++
	s.last = s.count%s.period == 1
	return s.last
}

// c5Mirror stands for a stateful sampler in the isolated reference logger: it repeats the
// verdict the event under test was given.
type c5Mirror struct{ r *c5Run }

func (m c5Mirror) Sample(l zerolog.Level) bool {
	if m.r.refVerdict < 0 {
		zsim.Fail("C05.sampler", "the sampler of the logger was not consulted for an event that a logger built alone from the same derivation puts to its sampler")
	}
	return m.r.refVerdict == 1
}

func mkSampler(k int) zerolog.Sampler {
	switch k {
	case 1:
		return c5LvlSampler{}
	case 2:
		return &zerolog.BasicSampler{N: 1}
	case 3:
		return &zerolog.BasicSampler{N: 0}
	}
	return nil
}

// refLogger builds, from nothing, the logger the model describes.
func (r *c5Run) refLogger(m c5Model, w io.Writer) zerolog.Logger {
	if m.sink < 0 {
		w = nil // a logger whose events go nowhere
	}
	c := zerolog.New(w).With()
	for _, g := range m.fields {
		if g == nil {
			// the point in the derivation where With().Stack() happened: it
			// affects every Err added to the context afterwards
			c = c.Stack()
			continue
		}
		c = applyCtx(c, g)
	}
	if m.ctxID != 0 {
		c = c.Ctx(r.ctxs[m.ctxID])
	}
	lg := c.Logger()
	for _, h := range m.hooks {
		switch h {
		case "@timestamp":
			lg = lg.With().Timestamp().Logger()
		case "@caller":
			lg = lg.With().Caller().Logger()
		case "@callerskip2", "@callerskip3", "@callerskip4":
			lg = lg.With().CallerWithSkipFrameCount(int(h[len(h)-1] - '0')).Logger()
		case "@discard", "@discard2":
			lg = lg.Hook(c5DiscardHook{})
			if h == "@discard2" {
				lg = lg.Hook(c5DiscardHook{})
			}
		default:
			lg = lg.Hook(c5Hook{r, h})
		}
	}
	lg = lg.Level(m.level)
	if m.sampler == 4 {
		lg = lg.Sample(c5Mirror{r})
	} else if m.sampler != 0 {
		lg = lg.Sample(mkSampler(m.sampler))
	}
	return lg
}

// c5Event is an event spec.
type c5Event struct {
	id     string
	level  zerolog.Level
	ops    []fop
	probes bool // include marshalers that look at GetCtx
	fin    int
}

func (r *c5Run) genEvent() c5Event {
	r.nEv++
	ev := c5Event{id: fmt.Sprintf("e%d", r.nEv)}
	ev.level = []zerolog.Level{zerolog.InfoLevel, zerolog.ErrorLevel, zerolog.DebugLevel, zerolog.WarnLevel, zerolog.NoLevel}[r.ch.Intn(5)]
	ev.ops = genOps(r.ch, r.ch.Intn(4), 1, ev.id+"_")
	if r.ch.Chance(1, 4) {
		ev.ops = append(ev.ops, fop{Kind: fProbeObj + r.ch.Intn(nProbeKinds), Key: ev.id + "_probe"})
	}
	ev.probes = r.ch.Chance(1, 2)
	ev.fin = r.ch.Intn(2)
	return ev
}

func (r *c5Run) open(lg *zerolog.Logger, ev c5Event) *zerolog.Event {
	var e *zerolog.Event
	if ev.level == zerolog.NoLevel {
		e = lg.Log()
	} else {
		e = lg.WithLevel(ev.level)
	}
	return e.Str("ev", ev.id)
}

func (r *c5Run) fill(e *zerolog.Event, ev c5Event) *zerolog.Event {
	e = applyEvent(e, ev.ops)
	e = e.Err(errors.New("boom"))
	if ev.probes {
		e = e.Object("o", c5CtxM{r, "Object"})
		e = e.Dict("d", zerolog.Dict().Object("x", c5CtxM{r, "Dict.Object"}))
		e = e.Array("a", c5ArrM{c5CtxM{r, "Array.Object"}})
	}
	return e
}

func (r *c5Run) send(e *zerolog.Event, ev c5Event) {
	if ev.fin == 0 {
		e.Msg("msg " + ev.id)
	} else {
		e.Send()
	}
}

// emitChecked finalizes e (opened earlier on a logger whose model was m) and
// compares what reached the sinks with the isolated reference.
func (r *c5Run) emitChecked(e *zerolog.Event, ev c5Event, m c5Model, what string) {
	t := r.task()
	var got, want []c5Write
	var seen []c5Seen
	// the event under test and the reference are finalized by the same statement (pass 0
	// and pass 1 of this loop), so that caller hooks with any skip count report the same
	// file:line for both
	for pass := 0; pass < 2; pass++ {
		if pass == 0 {
			t.cap = &got
			t.seen = nil
		} else {
			t.inRef = true
			r.refVerdict = -1
			if v, ok := r.verdict[ev.id]; ok {
				r.refVerdict = v
				delete(r.verdict, ev.id)
			}
			ref := r.refLogger(m, c5RefSink{&want})
			e = r.open(&ref, ev)
		}
		r.send(r.fill(e, ev), ev)
		if pass == 0 {
			t.cap = nil
			seen = t.seen
		} else {
			t.inRef = false
		}
	}
	if len(got) != len(want) {
		zsim.Fail("C05.bytes", "%s: event %s reached the destinations %d time(s), a logger built alone from %v emits %d", what, ev.id, len(got), m, len(want))
	}
	for i := range got {
		if got[i].sink != m.sink {
			zsim.Fail("C05.dest", "%s: event %s was written to sink %d, the node's destination is sink %d", what, ev.id, got[i].sink, m.sink)
		}
		if !bytes.Equal(got[i].b, want[i].b) {
			zsim.Fail("C05.bytes", "%s: event %s differs from what a logger built alone from the same derivation emits (first difference at byte %d)\n got  %s\n want %s\n model %v", what, ev.id, firstDiff(got[i].b, want[i].b), clip(got[i].b, 200), clip(want[i].b, 200), m)
		}
	}
	for _, s := range seen {
		own := m.seenCtx()
		strict := strings.HasPrefix(s.where, "hook") || s.where == "Object" || s.where == "EmbedObject"
		if s.id == own || (!strict && s.id == 0) {
			continue
		}
		zsim.Fail("C05.ctx", "%s: %s of event %s saw Go context #%d through GetCtx; the logger's is #%d (0 = background, -1 = nil)", what, s.where, ev.id, s.id, own)
	}
}

func (r *c5Run) addNode(lg zerolog.Logger, m c5Model, path string) *c5Node {
	n := &c5Node{id: len(r.nodes), lg: lg, m: m, path: path}
	r.nodes = append(r.nodes, n)
	zsim.Log("node %d = %s", n.id, path)
	return n
}

func (r *c5Run) genCtxOps(tag string) []fop {
	// sizes chosen so that contexts approach and cross the 500-byte capacity
	n := 1 + r.ch.Intn(4)
	ops := genOps(r.ch, n, 1, tag)
	if r.ch.Chance(1, 3) {
		ops = append(ops, fop{Kind: fStr, Key: tag + "pad", S: strings.Repeat("p", 100+r.ch.Intn(300))})
	}
	if r.ch.Chance(1, 4) {
		ops = append(ops, fop{Kind: fProbeObj + r.ch.Intn(nProbeKinds), Key: tag + "probe"})
	}
	return ops
}

// checkSeen verifies what marshalers saw through GetCtx while a logger context was
// being built: the parent's Go context or the background context, never another
// event's.
func (r *c5Run) checkSeen(own int, what string) {
	t := r.task()
	for _, s := range t.seen {
		if s.id != own && s.id != 0 {
			zsim.Fail("C05.ctx", "%s: %s saw Go context #%d through GetCtx; the logger's is #%d (0 = background, -1 = nil)", what, s.where, s.id, own)
		}
	}
	t.seen = nil
}

func (r *c5Run) derive(p *c5Node) *c5Node {
	ch := r.ch
	m := p.m.clone()
	tag := fmt.Sprintf("n%d_", len(r.nodes))
	switch ch.Weighted(6, 2, 2, 3, 3, 2, 1, 3, 1, 1, 1, 1, 2) {
	case 12:
		// one Context value used twice: a logger taken from it as it is, and a logger taken
		// from it after more fields were added (only one branch appends: this is not the
		// two-appending-branches pattern of the known finding D6)
		ops1 := r.genCtxOps(tag)
		ops2 := r.genCtxOps(tag + "x_")
		r.task().seen = nil
		c := applyCtx(p.lg.With(), ops1)
		var short, long zerolog.Logger
		if ch.Chance(1, 2) {
			short = c.Logger()
			long = applyCtx(c, ops2).Logger()
		} else {
			long = applyCtx(c, ops2).Logger()
			short = c.Logger()
		}
		r.checkSeen(p.m.seenCtx(), fmt.Sprintf("deriving two loggers from one Context of n%d", p.id))
		ms := m.clone()
		ms.fields = append(ms.fields, ops1)
		ml := m.clone()
		ml.fields = append(ml.fields, ops1, ops2)
		zsim.Probe("context_value_used_twice")
		r.addNode(long, ml, fmt.Sprintf("n%d.With(%s)+(%s)", p.id, opsString(ops1), opsString(ops2)))
		return r.addNode(short, ms, fmt.Sprintf("n%d.With(%s) [same Context value]", p.id, opsString(ops1)))
	case 10:
		// hooks that discard selected events; two of them discard the same event twice
		if ch.Chance(1, 2) {
			m.hooks = append(m.hooks, "@discard")
			return r.addNode(p.lg.Hook(c5DiscardHook{}), m, fmt.Sprintf("n%d.Hook(discard)", p.id))
		}
		m.hooks = append(m.hooks, "@discard2")
		return r.addNode(p.lg.Hook(c5DiscardHook{}).Hook(c5DiscardHook{}), m, fmt.Sprintf("n%d.Hook(discard).Hook(discard)", p.id))
	case 11:
		k := 2 + ch.Intn(3)
		m.hooks = append(m.hooks, fmt.Sprintf("@callerskip%d", k))
		n := r.addNode(p.lg.With().CallerWithSkipFrameCount(k).Logger(), m, fmt.Sprintf("n%d.With().CallerWithSkipFrameCount(%d)", p.id, k))
		n.fromWith = true
		return n
	case 8:
		// Timestamp() and Caller() on a Context are implemented as hooks
		m.hooks = append(m.hooks, "@timestamp")
		n := r.addNode(p.lg.With().Timestamp().Logger(), m, fmt.Sprintf("n%d.With().Timestamp()", p.id))
		n.fromWith = true
		return n
	case 9:
		m.hooks = append(m.hooks, "@caller")
		n := r.addNode(p.lg.With().Caller().Logger(), m, fmt.Sprintf("n%d.With().Caller()", p.id))
		n.fromWith = true
		return n
	case 0:
		ops := r.genCtxOps(tag)
		c := p.lg.With()
		what := "With"
		if ch.Chance(1, 6) {
			// Reset drops the inherited fields (not the Stack flag)
			c = c.Reset()
			m.fields = nil
			if m.stack {
				m.fields = append(m.fields, nil)
			}
			what = "With().Reset"
			if ch.Chance(1, 2) {
				// a context that is only a few bytes long after the reset: whatever the reset
				// context starts from, even its smallest spare capacity must not be shared
				ops = []fop{{Kind: fInt, Key: string(rune('a' + ch.Intn(26))), N: ch.Intn(10)}}
				zsim.Probe("tiny_context_after_reset")
			}
		}
		m.fields = append(m.fields, ops)
		r.task().seen = nil
		lg := applyCtx(c, ops).Logger()
		r.checkSeen(p.m.seenCtx(), fmt.Sprintf("deriving n%d.%s(%s)", p.id, what, opsString(ops)))
		n := r.addNode(lg, m, fmt.Sprintf("n%d.%s(%s)", p.id, what, opsString(ops)))
		n.fromWith = true
		return n
	case 1:
		// Disabled too: fields added below a disabled node must show up again in a
		// descendant that re-enables logging
		m.level = []zerolog.Level{zerolog.DebugLevel, zerolog.InfoLevel, zerolog.WarnLevel, zerolog.ErrorLevel, zerolog.Disabled, zerolog.TraceLevel}[ch.Intn(6)]
		return r.addNode(p.lg.Level(m.level), m, fmt.Sprintf("n%d.Level(%v)", p.id, m.level))
	case 2:
		if r.single && ch.Chance(1, 2) {
			st := &c5Stateful{id: len(r.stateful), period: 2 + ch.Intn(2)}
			r.stateful = append(r.stateful, st)
			m.sampler, m.samp = 4, st
			zsim.Probe("stateful_sampler")
			return r.addNode(p.lg.Sample(st), m, fmt.Sprintf("n%d.Sample(stateful#%d every %d)", p.id, st.id, st.period))
		}
		m.samp = nil
		if ch.Chance(1, 6) {
			// Sample(nil): the child is not sampled at all, whatever its parent had
			m.sampler = 0
			zsim.Probe("sample_nil")
			return r.addNode(p.lg.Sample(nil), m, fmt.Sprintf("n%d.Sample(nil)", p.id))
		}
		m.sampler = 1 + ch.Intn(3)
		return r.addNode(p.lg.Sample(mkSampler(m.sampler)), m, fmt.Sprintf("n%d.Sample(%d)", p.id, m.sampler))
	case 3:
		k := 1 + ch.Intn(2)
		// the caller builds its hook list in a scratch slice that it reuses for the next
		// derivation (overwriting the elements in place): Hook must not keep that slice
		// (one scratch slice per task: sharing it between goroutines would be the caller's bug)
		tk := r.task()
		if tk.scratch == nil {
			tk.scratch = make([]zerolog.Hook, 2, 4)
		}
		hs := tk.scratch[:k]
		for i := 0; i < k; i++ {
			name := fmt.Sprintf("%sh%d", tag, i)
			m.hooks = append(m.hooks, name)
			hs[i] = c5Hook{r, name}
		}
		return r.addNode(p.lg.Hook(hs...), m, fmt.Sprintf("n%d.Hook(x%d)", p.id, k))
	case 4:
		if ch.Chance(1, 5) {
			// Output(nil): the events go nowhere, everything else of the logger stays (a
			// descendant given a writer again logs with the full derivation)
			m.sink = -1
			zsim.Probe("output_nil")
			return r.addNode(p.lg.Output(nil), m, fmt.Sprintf("n%d.Output(nil)", p.id))
		}
		m.sink = ch.Intn(len(r.sinks))
		n := r.addNode(p.lg.Output(r.sinks[m.sink]), m, fmt.Sprintf("n%d.Output(sink%d)", p.id, m.sink))
		// a logger made by Output owns its context bytes like one made by With(): its owner
		// may extend them in place (UpdateContext) without touching the logger it came from
		n.fromWith = true
		return n
	case 5:
		m.ctxID = 1 + ch.Intn(len(r.ctxs)-1)
		if m.ctxID >= 4 && p.m.seenCtx() != 0 {
			zsim.Probe("go_context_detached")
		}
		n := r.addNode(p.lg.With().Ctx(r.ctxs[m.ctxID]).Logger(), m, fmt.Sprintf("n%d.With().Ctx(#%d)", p.id, m.ctxID))
		n.fromWith = true
		return n
	case 6:
		m.stack = true
		m.fields = append(m.fields, nil)
		var lg zerolog.Logger
		if r.single && ch.Chance(1, 3) {
			// no stack marshaler is installed while the logger is derived; one is by the time
			// it logs: Stack() is a property of the logger, the marshaler is looked up per error
			old := zerolog.ErrorStackMarshaler
			zerolog.ErrorStackMarshaler = nil
			lg = p.lg.With().Stack().Logger()
			zerolog.ErrorStackMarshaler = old
			zsim.Probe("stack_before_marshaler_installed")
		} else {
			lg = p.lg.With().Stack().Logger()
		}
		n := r.addNode(lg, m, fmt.Sprintf("n%d.With().Stack()", p.id))
		n.fromWith = true
		return n
	default:
		// With()...Logger() immediately followed by UpdateContext on the new logger
		ops := r.genCtxOps(tag)
		ops2 := r.genCtxOps(tag + "u")
		m.fields = append(m.fields, ops, ops2)
		r.task().seen = nil
		lg := applyCtx(p.lg.With(), ops).Logger()
		lg.UpdateContext(func(c zerolog.Context) zerolog.Context { zsim.Yield("UpdateContext"); return applyCtx(c, ops2) })
		r.checkSeen(p.m.seenCtx(), fmt.Sprintf("deriving n%d.With+UpdateContext", p.id))
		n := r.addNode(lg, m, fmt.Sprintf("n%d.With(%s)+UpdateContext(%s)", p.id, opsString(ops), opsString(ops2)))
		n.fromWith = true
		return n
	}
}

type c5Open struct {
	e  *zerolog.Event
	ev c5Event
	m  c5Model
	n  int
}

// lateUpdate applies UpdateContext (optionally with Reset) to a logger that was
// produced by With()...Logger() earlier and may meanwhile have Level/Sample/Hook/
// Output children. Only used in single-task runs: UpdateContext is documented as
// not safe for concurrent use of that logger.
func (r *c5Run) lateUpdate(n *c5Node) {
	ops := r.genCtxOps(fmt.Sprintf("u%d_", r.nEv+len(r.nodes)))
	reset := r.ch.Chance(1, 3)
	r.task().seen = nil
	if r.ch.Chance(1, 4) {
		// the application has registered this very logger as the fallback for contexts without
		// one; it is still its own logger, and updating it works as before
		zerolog.DefaultContextLogger = &n.lg
		zsim.Probe("update_of_default_context_logger")
		defer func() { zerolog.DefaultContextLogger = nil }()
	}
	n.lg.UpdateContext(func(c zerolog.Context) zerolog.Context {
		if reset {
			c = c.Reset()
		}
		return applyCtx(c, ops)
	})
	m := n.m.clone()
	if reset {
		m.fields = nil
		if m.stack {
			m.fields = append(m.fields, nil)
		}
	}
	m.fields = append(m.fields, ops)
	n.m = m
	zsim.Probe("late_update_context")
	r.checkSeen(n.m.seenCtx(), fmt.Sprintf("node %d UpdateContext(reset=%v)", n.id, reset))
	zsim.Log("node %d: UpdateContext(reset=%v, %s)", n.id, reset, opsString(ops))
}

func (r *c5Run) worker(nOps int) func() {
	return func() {
		ch := r.ch
		var open []c5Open
		closeOne := func(i int) {
			o := open[i]
			open = append(open[:i], open[i+1:]...)
			r.emitChecked(o.e, o.ev, o.m, fmt.Sprintf("node %d (event kept open)", o.n))
		}
		for i := 0; i < nOps; i++ {
			n := r.nodes[ch.Intn(len(r.nodes))]
			late := 0
			if r.single && n.fromWith {
				late = 2
			}
			switch ch.Weighted(5, 4, 3, 3, 2, late) {
			case 5:
				r.lateUpdate(n)
			case 0:
				r.derive(n)
				if ch.Chance(1, 3) {
					// a sibling from the same parent right away: both children start from
					// the same slices (context bytes, hooks) of the parent
					r.derive(n)
					zsim.Probe("sibling_burst")
				}
			case 1:
				ev := r.genEvent()
				r.emitChecked(r.openOn(n, ev), ev, n.m, fmt.Sprintf("node %d", n.id))
			case 2:
				if len(open) < 4 {
					ev := r.genEvent()
					open = append(open, c5Open{r.openOn(n, ev), ev, n.m, n.id})
					if len(open) >= 2 {
						zsim.Probe("open_events_overlap")
					}
				}
			case 3:
				if len(open) > 0 {
					closeOne(ch.Intn(len(open)))
				}
			case 4:
				// probe an older node: has anything that happened since changed it?
				old := r.nodes[ch.Intn(1+len(r.nodes)/2)]
				ev := r.genEvent()
				r.emitChecked(r.openOn(old, ev), ev, old.m, fmt.Sprintf("probe of older node %d", old.id))
			}
		}
		for len(open) > 0 {
			closeOne(ch.Intn(len(open)))
		}
	}
}

// contextBranch is the directed family for the known finding D6: two loggers
// branched from one intermediate Context value.
func (r *c5Run) contextBranch() {
	ch := r.ch
	base := zerolog.New(r.sinks[0]).With().Str("a", strings.Repeat("x", ch.Intn(40)))
	l1 := base.Str("b", "one").Logger()
	l2 := base.Str("b", "two").Logger()
	_ = l2
	t := r.task()
	var got []c5Write
	t.cap = &got
	l1.Log().Msg("")
	t.cap = nil
	if len(got) == 1 && !bytes.Contains(got[0].b, []byte(`"b":"one"`)) {
		zsim.Finding("C05.context_branch_alias", "two loggers branched from one intermediate Context value share spare capacity: the first branch, given b=one, emits %s", clip(got[0].b, 120))
	}
}

func (c05World) Run(prop string, ch *zsim.Choices, trace bool) *RunResult {
	r := &c5Run{ch: ch, tasks: map[int]*c5Task{}}
	oldTS, oldSM := zerolog.TimestampFunc, zerolog.ErrorStackMarshaler
	defer func() {
		zerolog.TimestampFunc, zerolog.ErrorStackMarshaler = oldTS, oldSM
		ctxProbe = nil
		zerolog.DefaultContextLogger = nil
	}()
	summary := ""
	main := func() {
		s := zsim.S
		zerolog.SetGlobalLevel(zerolog.TraceLevel)
		zerolog.DisableSampling(false)
		zerolog.TimestampFunc = func() time.Time { return refTime }
		zerolog.ErrorStackMarshaler = func(err error) interface{} { return "STACK" }
		ctxProbe = func(where string) zerolog.LogObjectMarshaler { return c5CtxM{r, where} }
		for i := 0; i < 4; i++ {
			r.sinks = append(r.sinks, &c5Sink{r, i})
		}
		r.ctxs = []context.Context{nil}
		for i := 1; i <= 3; i++ {
			r.ctxs = append(r.ctxs, context.WithValue(context.Background(), c5Key{}, i))
		}
		r.ctxs = append(r.ctxs, context.Background(), nil)
		s.ArmDraw([]string{"log.go", "context.go", "event.go", "array.go", "ctx.go", "fields.go"})
		nRoots := 1 + ch.Intn(2)
		for i := 0; i < nRoots; i++ {
			r.addNode(zerolog.New(r.sinks[i]), c5Model{sink: i, level: zerolog.TraceLevel}, fmt.Sprintf("New(sink%d)", i))
		}
		if ch.Chance(1, 8) {
			r.contextBranch()
		}
		nTasks := 1 + ch.Weighted(4, 3, 2, 1)
		r.single = nTasks == 1
		nOps := 4 + ch.Intn(30)
		summary = fmt.Sprintf("tasks=%d ops/task=%d roots=%d", nTasks, nOps, nRoots)
		zsim.Log("config: %s", summary)
		var ts []*zsim.Task
		for i := 0; i < nTasks; i++ {
			ts = append(ts, zsim.Spawn(fmt.Sprintf("w%d", i), r.worker(nOps)))
		}
		zsim.Join(ts...)
		// final probes: every node still emits exactly its own derivation
		for _, n := range r.nodes {
			ev := r.genEvent()
			r.emitChecked(r.openOn(n, ev), ev, n.m, fmt.Sprintf("final probe of node %d", n.id))
		}
		summary += fmt.Sprintf(" nodes=%d events=%d", len(r.nodes), r.nEv)
	}
	s := zsim.Run(zsim.Config{MaxSteps: 600000, Trace: trace}, ch, main)
	return finish(s, ch, summary, func() *zsim.Violation {
		if s.Stuck {
			return viol("C05.blocked", "tasks cannot finish: %s", s.StuckInfo)
		}
		return nil
	})
}
