// Package worlds holds one simulated world per property family. A world turns
// answers of zsim.Choices into a workload, a configuration, a schedule and a
// fault sequence, runs real zerolog code under the simulator and evaluates the
// property's oracle during the run and over the recorded history.
package worlds

import (
	"fmt"
	"sort"

	"github.com/rs/zerolog/zsim"
)

// RunResult is what one run reports.
type RunResult struct {
	Viol       *zsim.Violation
	Findings   []zsim.Violation
	Steps      int
	SimTime    int64
	Hash       uint64
	Strategy   int
	Truncated  bool
	Stuck      bool
	Nontrivial bool
	Switches   int
	Probes     map[string]int
	Faults     map[string]int
	Trace      []zsim.TraceEv
	Summary    string
	Rec        []uint32
	Overrun    int
}

// World is one property family.
type World interface {
	// Run performs one run for property prop.
	Run(prop string, ch *zsim.Choices, trace bool) *RunResult
	// Props lists the property ids the world serves.
	Props() []string
	// Components says what ran real and what was a stub.
	Components() (real, stub []string)
}

var registry = map[string]World{}

func register(name string, w World) { registry[name] = w }

// Get returns the world by name.
func Get(name string) World { return registry[name] }

// Names lists registered worlds.
func Names() []string {
	var out []string
	for k := range registry {
		out = append(out, k)
	}
	sort.Strings(out)
	return out
}

// WorldFor returns the name of the world that serves prop.
func WorldFor(prop string) string {
	for _, n := range Names() {
		for _, p := range registry[n].Props() {
			if p == prop {
				return n
			}
		}
	}
	return ""
}

// finish builds the RunResult from a finished simulation; post is the
// history oracle evaluated by the driver after teardown.
func finish(s *zsim.Sim, ch *zsim.Choices, summary string, post func() *zsim.Violation) *RunResult {
	r := &RunResult{
		Viol: s.Viol, Steps: s.StepNo(), SimTime: s.Now(), Hash: s.Hash(), Strategy: s.Strategy(),
		Truncated: s.Truncated, Stuck: s.Stuck, Switches: s.Switches,
		Probes: s.Probes, Faults: s.Faults, Trace: s.Trace, Summary: summary,
		Rec: ch.Rec, Overrun: ch.Overrun, Findings: s.Findings,
	}
	// the case hash covers every answer of the choice stream (workload,
	// configuration, faults) and every scheduling decision
	h := s.Hash()
	for _, v := range ch.Rec {
		h = (h ^ uint64(v)) * 0x100000001b3
	}
	r.Hash = h
	if r.Viol == nil && post != nil {
		r.Viol = post()
	}
	nf := 0
	for _, v := range s.Faults {
		nf += v
	}
	r.Nontrivial = s.Switches > 0 || nf > 0
	return r
}

func viol(clause, format string, a ...interface{}) *zsim.Violation {
	return &zsim.Violation{Clause: clause, Msg: fmt.Sprintf(format, a...)}
}

func fnv(b []byte) uint64 {
	h := uint64(0xcbf29ce484222325)
	for _, c := range b {
		h = (h ^ uint64(c)) * 0x100000001b3
	}
	return h
}

func clip(b []byte, n int) string {
	if len(b) <= n {
		return fmt.Sprintf("%q", b)
	}
	return fmt.Sprintf("%q...(%d bytes)", b[:n], len(b))
}
