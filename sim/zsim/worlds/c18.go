package worlds

import (
	"bufio"
	"bytes"
	"context"
	"encoding/json"
	"errors"
	"fmt"
	"io"
	"net"
	"net/http"
	"strings"
	"time"

	"github.com/rs/xid"
	"github.com/rs/zerolog"
	"github.com/rs/zerolog/hlog"
	"github.com/rs/zerolog/zsim"
)

// C18: hlog keeps concurrent requests isolated, leaves the parent logger alone,
// and AccessHandler reports what the underlying ResponseWriter was really given.
type c18World struct{}

func init() { register("c18", c18World{}) }

func (c18World) Props() []string { return []string{"C18"} }

func (c18World) Components() (real, stub []string) {
	return []string{"hlog.NewHandler and every field handler", "hlog.AccessHandler", "mutil.WrapWriter proxies (basic, flush, fancy)", "zerolog.Ctx / Logger.WithContext / UpdateContext", "net/http request and handler types (no sockets)"},
		[]string{"http.ResponseWriter in three capability sets (accepts all / fewer bytes / fails)", "yielding middleware between handlers", "innermost handler (drawn ResponseWriter call sequence, logs events)", "destination writer"}
}

// ---- fake ResponseWriter ----

type rwCore struct {
	hdr      http.Header
	status   int // first status received; 0 = nothing sent
	accepted int
	calls    []string
	mode     int // 0 accepts all, 1 accepts fewer bytes, 2 fails on the second body write, 3 partial write + error
	writes   int
}

func (c *rwCore) Header() http.Header { return c.hdr }

func (c *rwCore) WriteHeader(code int) {
	c.calls = append(c.calls, fmt.Sprintf("WriteHeader(%d)", code))
	zsim.Yield("rw.WriteHeader")
	if c.status == 0 {
		c.status = code
	}
}

func (c *rwCore) accept(n int) (int, error) {
	c.writes++
	if c.status == 0 {
		c.status = http.StatusOK
	}
	switch c.mode {
	case 1:
		if n > 1 {
			zsim.Fault("rw_short_write")
			n = n - 1 - n/3
		}
	case 2:
		if c.writes >= 2 {
			zsim.Fault("rw_error")
			return 0, errors.New("connection reset")
		}
	case 4:
		// the very first body write is refused
		if c.writes == 1 {
			zsim.Fault("rw_first_write_fails")
			return 0, errors.New("broken pipe")
		}
	case 3:
		// the write fails after part of it was accepted: (n>0, err)
		if c.writes >= 2 && n > 1 {
			zsim.Fault("rw_partial_then_error")
			n = n / 2
			c.accepted += n
			return n, errors.New("connection reset after a partial write")
		}
	}
	c.accepted += n
	return n, nil
}

func (c *rwCore) Write(p []byte) (int, error) {
	zsim.Yield("rw.Write")
	n, err := c.accept(len(p))
	c.calls = append(c.calls, fmt.Sprintf("Write(%d)->%d,%v", len(p), n, err))
	return n, err
}

type rwBasic struct{ *rwCore }

type rwFlush struct{ *rwCore }

func (f rwFlush) Flush() { f.calls = append(f.calls, "Flush") }

type rwFull struct{ *rwCore }

func (f rwFull) Flush()                   { f.calls = append(f.calls, "Flush") }
func (f rwFull) CloseNotify() <-chan bool { return make(chan bool) }
func (f rwFull) Hijack() (net.Conn, *bufio.ReadWriter, error) {
	f.calls = append(f.calls, "Hijack")
	return nil, nil, errors.New("not supported")
}
func (f rwFull) ReadFrom(r io.Reader) (int64, error) {
	zsim.Yield("rw.ReadFrom")
	b, _ := io.ReadAll(r)
	n, err := f.accept(len(b))
	f.calls = append(f.calls, fmt.Sprintf("ReadFrom(%d)->%d,%v", len(b), n, err))
	return int64(n), err
}

// the same three capability sets with io.StringWriter on top (net/http's own writers and
// httptest.ResponseRecorder have it; io.WriteString looks for it)
type rwBasicS struct{ rwBasic }
type rwFlushS struct{ rwFlush }
type rwFullS struct{ rwFull }

func (c *rwCore) writeString(s string) (int, error) {
	zsim.Yield("rw.WriteString")
	n, err := c.accept(len(s))
	c.calls = append(c.calls, fmt.Sprintf("WriteString(%d)->%d,%v", len(s), n, err))
	return n, err
}
func (w rwBasicS) WriteString(s string) (int, error) { return w.writeString(s) }
func (w rwFlushS) WriteString(s string) (int, error) { return w.writeString(s) }
func (w rwFullS) WriteString(s string) (int, error)  { return w.writeString(s) }

// ---- requests ----

type c18Req struct {
	stash    *zerolog.Logger
	i        int
	req      *http.Request
	rwMode   int
	rwKind   int
	ops      []int // innermost handler: 0 WriteHeader, 1 Write, 2 ReadFrom, 3 Flush, 4 log event, 5 set Etag
	args     []int
	fake     *rwCore
	events   [][]byte // bytes logged while this request was served
	ref      [][]byte
	access   []([2]int)
	idMask   string
	finished bool
	panics   int // 0: the handler returns; 1: panic(http.ErrAbortHandler) at the end; 2: panic("boom")
	gotPanic interface{}
	cancel   context.CancelFunc // of the context of the request being served (the client going away)
}

type c18Run struct {
	ownLoggerInside bool // a middleware derives a logger of its own for the inner handlers
	ch              *zsim.Choices
	cur             map[int]*c18Req // task -> request being served
	solo            *c18Req
	reqs            []*c18Req
	probe           *[][]byte
}

type c18Sink struct{ r *c18Run }

func (s c18Sink) Write(p []byte) (int, error) {
	if zsim.Dying() {
		return len(p), nil
	}
	r := s.r
	b := append([]byte{}, p...)
	if r.probe != nil {
		*r.probe = append(*r.probe, b)
		return len(p), nil
	}
	q := r.solo
	if q == nil {
		q = r.cur[zsim.CurID()]
	}
	if q == nil {
		zsim.Fail("C18.isolation", "an event was logged outside any request: %s", clip(p, 100))
	}
	if q.idMask != "" {
		b = bytes.ReplaceAll(b, []byte(q.idMask), []byte("<request-id>"))
	}
	if r.solo != nil {
		q.ref = append(q.ref, b)
	} else {
		q.events = append(q.events, b)
		zsim.Yield("sink.Write")
	}
	return len(p), nil
}

func yieldMW(next http.Handler) http.Handler {
	return http.HandlerFunc(func(w http.ResponseWriter, r *http.Request) {
		zsim.Yield("middleware")
		next.ServeHTTP(w, r)
		zsim.Yield("middleware")
	})
}

func (r *c18Run) request() *c18Req {
	if r.solo != nil {
		return r.solo
	}
	return r.cur[zsim.CurID()]
}

// final is the innermost handler.
func (r *c18Run) final() http.Handler {
	return http.HandlerFunc(func(w http.ResponseWriter, req *http.Request) {
		q := r.request()
		if id, ok := hlog.IDFromRequest(req); ok {
			q.idMask = id.String()
		}
		lg := hlog.FromRequest(req)
		q.stash = lg
		lg.Info().Int("req", q.i).Msg("start")
		nEv := 0
		for k, op := range q.ops {
			zsim.Yield("handler")
			switch op {
			case 0:
				w.WriteHeader([]int{200, 201, 404, 500, 302, 101, 103, 204}[q.args[k]%8])
			case 1:
				if q.args[k]%9 == 0 {
					// a zero-length body write: it still commits the implicit 200
					zsim.Probe("zero_length_write")
					if q.args[k]%2 == 0 {
						w.Write(nil)
					} else {
						w.Write([]byte{})
					}
				} else {
					w.Write(bytes.Repeat([]byte{'b'}, 1+q.args[k]%40))
				}
			case 2:
				if rf, ok := w.(io.ReaderFrom); ok {
					rf.ReadFrom(strings.NewReader(strings.Repeat("r", 1+q.args[k]%50)))
				} else {
					w.Write(bytes.Repeat([]byte{'c'}, 1+q.args[k]%40))
				}
			case 3:
				if f, ok := w.(http.Flusher); ok {
					f.Flush()
				}
			case 4:
				nEv++
				hlog.FromRequest(req).Info().Int("req", q.i).Int("n", nEv).Msg("handler event")
			case 5:
				w.Header().Set("Etag", fmt.Sprintf(`"etag-%d"`, q.i))
				w.Header().Set("X-Resp", fmt.Sprintf("resp-%d", q.i))
			case 6:
				// the pass-through capabilities of the full proxy: they must reach the
				// underlying writer and leave the accounting alone
				if hj, ok := w.(http.Hijacker); ok {
					hj.Hijack()
				}
				if cn, ok := w.(http.CloseNotifier); ok {
					cn.CloseNotify()
				}
			case 8:
				// body bytes sent with io.WriteString: they commit the implicit 200 like any write
				zsim.Probe("io_write_string")
				io.WriteString(w, strings.Repeat("s", 1+q.args[k]%40))
			case 7:
				// the client goes away while the handler is still at work; what the handler
				// sends afterwards is still what was sent
				zsim.Probe("request_context_cancelled")
				q.cancel()
				zsim.Yield("after cancel")
			}
		}
		switch q.panics {
		case 1:
			zsim.Fault("handler_panics")
			panic(http.ErrAbortHandler)
		case 2:
			zsim.Fault("handler_panics")
			panic(fmt.Sprintf("boom-%d", q.i))
		}
	})
}

type mwf = func(http.Handler) http.Handler

func (r *c18Run) chain(parent zerolog.Logger, picks []int, accessAt, accessAt2, hookAt int) http.Handler {
	// a middleware that gives the request a logger of its own, derived with Hook
	hookMW := func(next http.Handler) http.Handler {
		return http.HandlerFunc(func(w http.ResponseWriter, req *http.Request) {
			q := r.request()
			l := hlog.FromRequest(req).Hook(c18ReqHook{q.i})
			next.ServeHTTP(w, req.WithContext(l.WithContext(req.Context())))
		})
	}
	field := []mwf{
		hlog.URLHandler("url"), hlog.MethodHandler("method"), hlog.RequestHandler("request"),
		hlog.RemoteAddrHandler("ip"), hlog.RemoteIPHandler("ip_only"), hlog.UserAgentHandler("ua"),
		hlog.RefererHandler("referer"), hlog.ProtoHandler("proto"), hlog.HTTPVersionHandler("httpv"),
		hlog.RequestIDHandler("req_id", "X-Request-Id"), hlog.CustomHeaderHandler("custom", "X-Custom"),
		hlog.HostHandler("host"), hlog.HostHandler("host_noport", true), hlog.EtagHandler("etag"),
		hlog.ResponseHeaderHandler("resp", "X-Resp"),
		// a field so short that it fits into a few spare bytes, and a header name configured
		// in a non-canonical spelling
		hlog.CustomHeaderHandler("k", "X-K"), hlog.CustomHeaderHandler("custom2", "x-custom-low"),
	}
	access := hlog.AccessHandler(func(req *http.Request, status, size int, d time.Duration) {
		q := r.request()
		q.access = append(q.access, [2]int{status, size})
		if d < 0 {
			zsim.Fail("C18.access", "AccessHandler reported a negative duration %v", d)
		}
		hlog.FromRequest(req).Info().Int("req", q.i).Msg("access")
	})
	var mws []mwf
	mws = append(mws, hlog.NewHandler(parent))
	for k, p := range picks {
		if k == accessAt || k == accessAt2 {
			mws = append(mws, access)
		}
		if k == hookAt {
			mws = append(mws, hookMW)
		}
		mws = append(mws, field[p%len(field)])
	}
	if accessAt >= len(picks) {
		mws = append(mws, access)
	}
	if accessAt2 >= len(picks) {
		mws = append(mws, access)
	}
	if hookAt >= len(picks) {
		mws = append(mws, hookMW)
	}
	var h http.Handler = r.final()
	for i := len(mws) - 1; i >= 0; i-- {
		h = yieldMW(mws[i](yieldMW(h)))
	}
	return h
}

// late logs through the logger the innermost handler took from its request, after the
// request has been served.
func (r *c18Run) late(q *c18Req) {
	if q.stash == nil || r.ownLoggerInside {
		// (with the per-request hook middleware the innermost logger is a Hook() copy that the
		// inner handlers extended with UpdateContext while the outer ones extend the original:
		// the two share spare capacity by the rules of Logger.UpdateContext, and what the copy
		// emits after the outer handlers have run is not specified)
		q.stash = nil
		return
	}
	zsim.Probe("event_after_request_returned")
	q.stash.Info().Int("req", q.i).Msg("late event")
	q.stash = nil
}

func (r *c18Run) serve(h http.Handler, q *c18Req) {
	q.fake = &rwCore{hdr: http.Header{}, mode: q.rwMode}
	q.access = nil
	q.idMask = ""
	var w http.ResponseWriter
	switch q.rwKind {
	case 0:
		w = rwBasic{q.fake}
	case 1:
		w = rwFlush{q.fake}
	case 2:
		w = rwFull{q.fake}
	case 3:
		w = rwBasicS{rwBasic{q.fake}}
	case 4:
		w = rwFlushS{rwFlush{q.fake}}
	default:
		w = rwFullS{rwFull{q.fake}}
	}
	q.gotPanic = nil
	defer func() {
		// a panicking handler: the panic must come out unchanged (a server would log it),
		// and AccessHandler must still have reported what was really sent
		if p := recover(); p != nil {
			if zsim.Dying() {
				panic(p)
			}
			q.gotPanic = p
		}
	}()
	// as under a real server, the request's context is cancelled when the client goes away
	// (op 7 of the innermost handler) and in any case after the handler has returned
	ctx, cancel := context.WithCancel(q.req.Context())
	q.cancel = cancel
	defer cancel()
	h.ServeHTTP(w, q.req.WithContext(ctx))
}

func firstOr(bs [][]byte) []byte {
	if len(bs) == 0 {
		return nil
	}
	return bs[0]
}

func hostOnly(hp string) string {
	if hp == "" {
		return ""
	}
	h, _, err := net.SplitHostPort(hp)
	if err != nil {
		return hp
	}
	return h
}

// checkFields compares the fields of the request's first event with what the
// handlers of the chain are documented to log for this request.
func (r *c18Run) checkFields(q *c18Req, picks []int) string {
	// every event of the request, wherever in the chain it was logged from (the innermost
	// handler, or the AccessHandler callback further out): all handlers update the one
	// logger of the request in place, so each of their fields is on every event. (Not so
	// when a middleware of the chain gives the inner handlers a logger of their own: then
	// only the innermost events carry everything.)
	for k := range q.ref {
		if r.ownLoggerInside && k > 0 {
			break
		}
		if v := r.checkEvent(q, picks, q.ref[k]); v != "" {
			return fmt.Sprintf("event %d: %s", k, v)
		}
	}
	return ""
}

func (r *c18Run) checkEvent(q *c18Req, picks []int, raw []byte) string {
	var ev map[string]interface{}
	if err := json.Unmarshal(raw, &ev); err != nil {
		return "" // not this property's business
	}
	req := q.req
	want := map[int][2]string{
		0:  {"url", req.URL.String()},
		1:  {"method", req.Method},
		2:  {"request", req.Method + " " + req.URL.String()},
		3:  {"ip", req.RemoteAddr},
		4:  {"ip_only", hostOnly(req.RemoteAddr)},
		5:  {"ua", req.Header.Get("User-Agent")},
		6:  {"referer", req.Header.Get("Referer")},
		7:  {"proto", req.Proto},
		8:  {"httpv", strings.TrimPrefix(req.Proto, "HTTP/")},
		9:  {"req_id", "<request-id>"},
		10: {"custom", req.Header.Get("X-Custom")},
		11: {"host", req.Host},
		12: {"host_noport", hostOnly(req.Host)},
		15: {"k", req.Header.Get("X-K")},
		16: {"custom2", req.Header.Get("X-Custom-Low")},
	}
	for _, p := range picks {
		w, ok := want[p%17]
		if !ok {
			continue
		}
		got, present := ev[w[0]]
		if w[1] == "" {
			continue
		}
		if !present || got != w[1] {
			return fmt.Sprintf("field %q is %v, the request's value is %q", w[0], got, w[1])
		}
	}
	return ""
}

func mkParent(kind int, w io.Writer) zerolog.Logger {
	switch kind {
	case 1:
		return zerolog.New(w).With().Str("svc", "api").Logger()
	case 2:
		// a context that fills its 500-byte slice exactly: {"pad":"<491 bytes>"
		return zerolog.New(w).With().Str("pad", strings.Repeat("p", 491)).Logger()
	case 3:
		return zerolog.New(w).With().Str("svc", "api").Logger().Level(zerolog.InfoLevel)
	case 4:
		// more than 500 bytes of context: the slice was re-grown and has spare capacity again
		return zerolog.New(w).With().Str("pad", strings.Repeat("q", 600)).Str("svc", "api").Logger()
	case 5:
		return zerolog.New(w).With().Str("pad", strings.Repeat("q", 1500)).Logger()
	case 6:
		// hooks added one call at a time: the hooks slice ends up with spare capacity
		return zerolog.New(w).Hook(c18NopHook{}).Hook(c18NopHook{}).Hook(c18NopHook{})
	}
	return zerolog.New(w)
}

type c18NopHook struct{}

func (c18NopHook) Run(e *zerolog.Event, l zerolog.Level, m string) {}

// c18ReqHook is a hook a middleware installs on the logger of one request (a trace id).
type c18ReqHook struct{ i int }

func (h c18ReqHook) Run(e *zerolog.Event, l zerolog.Level, m string) {
	zsim.Yield("request hook")
	e.Int("hk_req", h.i)
}

func (c18World) Run(prop string, ch *zsim.Choices, trace bool) *RunResult {
	r := &c18Run{ch: ch, cur: map[int]*c18Req{}}
	oldTS := zerolog.TimestampFunc
	defer func() { zerolog.TimestampFunc = oldTS; zerolog.DefaultContextLogger = nil }()
	summary := ""
	hasAccess := false
	nAccess := 0
	var probeBefore, probeAfter [][]byte
	main := func() {
		s := zsim.S
		zerolog.SetGlobalLevel(zerolog.TraceLevel)
		zerolog.DefaultContextLogger = nil
		zerolog.TimestampFunc = func() time.Time { return refTime }
		sink := c18Sink{r}
		pk := ch.Intn(7)
		parent := mkParent(pk, sink)
		if ch.Chance(1, 4) {
			// the application's fallback logger for contexts without one is the very logger the
			// middleware is given: every request still gets a logger of its own
			dl := parent
			zerolog.DefaultContextLogger = &dl
			zsim.Probe("default_context_logger_is_parent")
		}
		np := ch.Intn(8)
		var picks []int
		for i := 0; i < np; i++ {
			picks = append(picks, ch.Intn(17))
		}
		accessAt, accessAt2, hookAt := -1, -1, -1
		if ch.Chance(3, 4) {
			hasAccess = true
			nAccess = 1
			accessAt = ch.Intn(np + 1)
			if ch.Chance(1, 4) {
				// a second AccessHandler further in or out (a metrics layer and a log layer):
				// both see the same status and size
				if a2 := ch.Intn(np + 1); a2 != accessAt {
					accessAt2 = a2
					nAccess = 2
					zsim.Probe("two_access_handlers")
				}
			}
		}
		if ch.Chance(1, 3) {
			hookAt = ch.Intn(np + 1)
			r.ownLoggerInside = true
			zsim.Probe("per_request_hook")
		}
		h := r.chain(parent, picks, accessAt, accessAt2, hookAt)
		// in a third of the runs every request context already carries a logger
		// (http.Server.BaseContext or an outer middleware): the same *Logger for all requests
		var baseCtx context.Context
		var baseLogger zerolog.Logger
		if ch.Chance(1, 3) {
			baseLogger = zerolog.New(sink).With().Str("base", "ctx").Logger()
			if ch.Chance(1, 3) {
				// the application keeps one logger: the same value is in the base context and
				// is what the middleware is given; every request still gets a logger of its own
				baseLogger = parent
				zsim.Probe("base_context_logger_is_parent")
			}
			baseCtx = baseLogger.WithContext(context.Background())
			zsim.Probe("base_context_logger")
		}
		R := 2 + ch.Intn(4)
		for i := 0; i < R; i++ {
			req, _ := http.NewRequest([]string{"GET", "POST", "PUT", "HEAD", "DELETE", "PATCH", "OPTIONS"}[(i+ch.Intn(7))%7], fmt.Sprintf("http://host%d.example:80%d/path/%d%s?q=%d%s", i, i, i, []string{"", "/with%20space", "/100%25/caf%C3%A9", "/a%3Fb=1/x"}[ch.Intn(4)], i, []string{"", "&r=a%20b"}[ch.Intn(2)]), nil)
			if ch.Chance(1, 2) {
				// what a server hands to a handler: an origin-form request URL (path and query only;
				// the host is in req.Host)
				req.URL.Scheme, req.URL.Host = "", ""
			}
			// remote addresses and hosts in every notation a server or a RealIP middleware leaves
			// behind: host:port, bracketed IPv6 with port, bare IPv6, bare IPv4
			req.RemoteAddr = []string{
				fmt.Sprintf("10.0.0.%d:%d", i+1, 4000+i),
				fmt.Sprintf("[2001:db8::%x]:%d", i+1, 4000+i),
				fmt.Sprintf("2001:db8::%x", i+10),
				fmt.Sprintf("192.168.7.%d", i+1),
				fmt.Sprintf("::%x", i+1),
			}[ch.Intn(5)]
			req.Host = []string{
				fmt.Sprintf("host%d.example:80%d", i, i),
				fmt.Sprintf("host%d.example", i),
				fmt.Sprintf("[2001:db8::a%x]:443", i),
				fmt.Sprintf("[2001:db8::b%x]", i),
			}[ch.Intn(4)]
			req.Header.Set("User-Agent", fmt.Sprintf("agent-%d", i))
			req.Header.Set("Referer", fmt.Sprintf("http://ref%d/", i))
			req.Header.Set("X-Custom", fmt.Sprintf("custom-%d", i))
			req.Header.Set("X-K", string(rune('a'+i)))
			req.Header.Set("X-Custom-Low", fmt.Sprintf("low-%d", i))
			req.Proto = []string{"HTTP/1.1", "HTTP/2.0", "HTTP/1.0"}[i%3]
			q := &c18Req{i: i, req: req, rwMode: ch.Weighted(3, 1, 1, 1, 1), rwKind: ch.Intn(6), panics: ch.Weighted(6, 1, 1)}
			if baseCtx != nil {
				q.req = req.WithContext(baseCtx)
			}
			if ch.Chance(1, 2) {
				// a request id supplied by the caller; otherwise RequestIDHandler makes one up
				if id, err := xid.FromString(fmt.Sprintf("9m4e2mr0ui3e8a2%d0000", i)); err == nil {
					q.req = q.req.WithContext(hlog.CtxWithID(q.req.Context(), id))
				} else {
					zsim.Fail("harness", "xid: %v", err)
				}
			}
			nops := ch.Intn(7)
			for k := 0; k < nops; k++ {
				q.ops = append(q.ops, ch.Weighted(6, 8, 4, 2, 6, 2, 2, 1, 3))
				q.args = append(q.args, ch.Intn(1000))
			}
			r.reqs = append(r.reqs, q)
		}
		summary = fmt.Sprintf("parent=%d handlers=%v access-at=%d,%d hook-at=%d requests=%d", pk, picks, accessAt, accessAt2, hookAt, R)
		zsim.Log("config: %s", summary)
		probe := func(dst *[][]byte) {
			r.probe = dst
			parent.Info().Msg("parent probe")
			parent.Error().Str("k", "v").Msg("parent probe 2")
			if baseCtx != nil {
				zerolog.Ctx(baseCtx).Info().Msg("base context logger probe")
			}
			r.probe = nil
		}
		probe(&probeBefore)
		// reference: each request alone, through the same chain
		for _, q := range r.reqs {
			r.solo = q
			r.serve(h, q)
			r.late(q)
		}
		r.solo = nil
		// the reference run itself is checked against the request: every field a handler of
		// the chain adds must carry this request's value in its documented form
		for _, q := range r.reqs {
			if v := r.checkFields(q, picks); v != "" {
				zsim.Fail("C18.values", "request %d: %s; first event: %s", q.i, v, clip(firstOr(q.ref), 400))
			}
		}
		s.ArmDraw([]string{"hlog/", "log.go", "context.go", "ctx.go", "event.go"})
		var ts []*zsim.Task
		for _, q := range r.reqs {
			q := q
			ts = append(ts, zsim.Spawn(fmt.Sprintf("req%d", q.i), func() {
				r.cur[zsim.CurID()] = q
				r.serve(h, q)
				delete(r.cur, zsim.CurID())
				q.finished = true
			}))
		}
		zsim.Join(ts...)
		// something that kept a request's logger (a goroutine the handler started, a timeout
		// wrapper) logs through it after every request is over: still that request's values
		for _, q := range r.reqs {
			r.cur[zsim.CurID()] = q
			r.late(q)
			delete(r.cur, zsim.CurID())
		}
		probe(&probeAfter)
	}
	s := zsim.Run(zsim.Config{MaxSteps: 300000, Trace: trace}, ch, main)
	return finish(s, ch, summary, func() *zsim.Violation {
		if s.Stuck {
			return viol("C18.blocked", "requests cannot finish: %s", s.StuckInfo)
		}
		if s.Truncated {
			return nil
		}
		for _, q := range r.reqs {
			if !q.finished {
				return nil
			}
			if len(q.events) != len(q.ref) {
				return viol("C18.isolation", "request %d logged %d event(s) when served concurrently, %d when served alone", q.i, len(q.events), len(q.ref))
			}
			for k := range q.events {
				if !bytes.Equal(q.events[k], q.ref[k]) {
					return viol("C18.isolation", "request %d, event %d differs from the same request served alone (first difference at byte %d):\n got  %s\n want %s", q.i, k, firstDiff(q.events[k], q.ref[k]), clip(q.events[k], 400), clip(q.ref[k], 400))
				}
			}
			switch q.panics {
			case 0:
				if q.gotPanic != nil {
					return viol("C18.access", "request %d: serving panicked with %v although the handler returned normally", q.i, q.gotPanic)
				}
			case 1:
				if q.gotPanic != http.ErrAbortHandler {
					return viol("C18.access", "request %d: the handler panicked with http.ErrAbortHandler, the chain let out %v", q.i, q.gotPanic)
				}
			case 2:
				if q.gotPanic != fmt.Sprintf("boom-%d", q.i) {
					return viol("C18.access", "request %d: the handler's panic value came out as %v", q.i, q.gotPanic)
				}
			}
			if hasAccess {
				if len(q.access) != nAccess {
					return viol("C18.access", "request %d: the AccessHandler callbacks ran %d time(s), there are %d AccessHandlers in the chain", q.i, len(q.access), nAccess)
				}
				for k := range q.access {
					if q.access[k][0] != q.fake.status || q.access[k][1] != q.fake.accepted {
						return viol("C18.access", "request %d: AccessHandler #%d (innermost first) reported status=%d size=%d; the underlying ResponseWriter was given status %d and accepted %d body bytes; calls it received: %v", q.i, k, q.access[k][0], q.access[k][1], q.fake.status, q.fake.accepted, q.fake.calls)
					}
				}
			}
		}
		if len(probeBefore) != len(probeAfter) {
			return viol("C18.parent", "the logger passed to NewHandler emits %d events for the probe after the requests, %d before", len(probeAfter), len(probeBefore))
		}
		for i := range probeBefore {
			if !bytes.Equal(probeBefore[i], probeAfter[i]) {
				return viol("C18.parent", "the logger passed to NewHandler changed: probe event before %s, after %s", clip(probeBefore[i], 300), clip(probeAfter[i], 300))
			}
		}
		return nil
	})
}
