package worlds

import (
	"errors"
	"fmt"
	"io"
	"strings"
	"time"

	"github.com/anishathalye/porcupine"
	"github.com/rs/zerolog"
	"github.com/rs/zerolog/zsim"
)

// C15: TriggerLevelWriter holds back, releases and orders lines as specified,
// sequentially (op-by-op against a reference model) and under concurrent
// writers (linearizability of the recorded history against the same model).
type c15World struct{}

func init() { register("c15", c15World{}) }

func (c15World) Props() []string { return []string{"C15"} }

func (c15World) Components() (real, stub []string) {
	return []string{"TriggerLevelWriter (WriteLevel, Trigger, Close, buffer pooling with reuse limit)", "zerolog.Logger writing through it"},
		[]string{"destination (LevelWriter or plain Writer; may block inside Write)", "sync.Mutex and sync.Pool (scheduler-controlled; pooled buffers poisoned on Put)", "reference model + porcupine linearizability checker (oracle)"}
}

type tIn struct {
	Kind  int // 0 write, 1 trigger, 2 close
	Level int8
	Line  string
}

type tOp struct {
	in        tIn
	out       string // what the destination received between call and return (for messages only)
	call, ret int64
	client    int
}

type c15Run struct {
	oneTask   bool
	ch        *zsim.Choices
	levelDst  bool
	blockDst  int
	tick      int64
	cur       map[int]*tOp
	hist      [][]*tOp // per writer instance
	global    []string // destination writes in arrival order (serialized entries), all instances
	gtick     []int64  // when each of them arrived (event sequence number)
	curTicks  []int64
	gstart    []int // index into global where each instance starts
	curGlobal []string
	faulty    bool     // runs with a destination that fails some writes: only the at-most-once/order oracle applies
	accepted  []string // lines the destination accepted (returned success for), in order, faulty runs
	lineSeq   map[string]int
	dstCalls  int
	cond      zerolog.Level
	trig      zerolog.Level
	nLine     int
	// retarget: the owner assigns the exported Writer field between operations (single-task
	// runs); every line goes to the destination configured when it leaves the writer
	retarget bool
	dstObjs  []io.Writer
	// miscount: the destination takes every line but reports a wrong count with a nil error
	miscount int
	// dstClosed: somebody closed the destination (it is an io.Closer that refuses writes
	// afterwards); closing a TriggerLevelWriter is not a reason to
	dstClosed bool
}

type c15Dst struct {
	r  *c15Run
	id int
}

func (d c15Dst) Close() error {
	if !zsim.Dying() {
		d.r.dstClosed = true
	}
	return nil
}

// count is what the destination reports for an accepted line of n bytes.
func (d c15Dst) count(n int) int {
	switch d.r.miscount {
	case 1:
		return 0
	case 2:
		return n - 1
	case 3:
		return n + 7
	}
	return n
}

func (d c15Dst) record(l zerolog.Level, p []byte) error {
	r := d.r
	if r.faulty {
		r.dstCalls++
		zsim.Yield("dst.Write")
		if r.dstCalls%3 == 2 {
			zsim.Fault("dst_error")
			return errors.New("destination error")
		}
		r.accepted = append(r.accepted, string(p))
		return nil
	}
	// Which goroutine carries a line to the destination is the writer's business (it may
	// delegate to another caller or to a helper): a write is matched to operations by
	// *when* it happened, not by who made the call.
	if len(r.cur) == 0 {
		zsim.Fail("C15.unexpected_write", "destination written while no WriteLevel/Trigger/Close call is in progress: %s", clip(p, 80))
	}
	if r.dstClosed {
		return errors.New("destination is closed")
	}
	ent := string(p) + "|"
	if r.levelDst {
		ent = fmt.Sprintf("%d:", int8(l)) + ent
	}
	if r.retarget {
		ent = fmt.Sprintf("D%d>", d.id) + ent
	}
	for _, op := range r.cur {
		op.out += ent
	}
	r.tick++
	r.global = append(r.global, ent)
	r.gtick = append(r.gtick, r.tick)
	zsim.Yield("dst.Write")
	if r.blockDst == 1 {
		zsim.Fault("dst_blocks")
		zsim.Sleep(time.Millisecond)
	}
	return nil
}

type c15LevelDst struct{ c15Dst }

func (d c15LevelDst) Write(p []byte) (int, error) {
	if !zsim.Dying() {
		if err := d.record(0, p); err != nil {
			return 0, err
		}
	}
	return d.count(len(p)), nil
}

func (d c15LevelDst) WriteLevel(l zerolog.Level, p []byte) (int, error) {
	if !zsim.Dying() {
		if err := d.record(l, p); err != nil {
			return 0, err
		}
	}
	return d.count(len(p)), nil
}

type c15PlainDst struct{ c15Dst }

func (d c15PlainDst) Write(p []byte) (int, error) {
	if !zsim.Dying() {
		if err := d.record(0, p); err != nil {
			return 0, err
		}
	}
	return d.count(len(p)), nil
}

// ---- reference model ----

type tState struct {
	triggered bool
	held      string // serialized held lines
	heldN     int
	pos       int // how much of the destination's global sequence is explained so far
	dst       int // which destination object the Writer field points to
}

func (r *c15Run) fmtLine(level int8, line string) string {
	if r.levelDst {
		return fmt.Sprintf("%d:%s|", level, line)
	}
	return line + "|"
}

// step is the specification: what the destination receives, as a consequence of one
// operation, before that operation returns (out = the n lines, serialized).
func (r *c15Run) step(st tState, in tIn) (tState, string, int) {
	ns, out, n := r.step0(st, in)
	if r.retarget && n > 0 {
		// the lines leave through the destination configured now
		parts := strings.SplitAfter(out, "|")
		out = ""
		for _, p := range parts {
			if p != "" {
				out += fmt.Sprintf("D%d>", ns.dst) + p
			}
		}
	}
	return ns, out, n
}

func (r *c15Run) step0(st tState, in tIn) (tState, string, int) {
	out, n := "", 0
	switch in.Kind {
	case 4:
		st.dst = int(in.Level)
	case 0:
		l := zerolog.Level(in.Level)
		if !st.triggered && l >= r.trig {
			out, n = st.held, st.heldN
			st.triggered = true
		}
		if !st.triggered && l <= r.cond {
			st.held += r.fmtLine(in.Level, in.Line)
			st.heldN++
			return st, out, n
		}
		out += r.fmtLine(in.Level, in.Line)
		n++
	case 1:
		if !st.triggered {
			out, n = st.held, st.heldN
			st.triggered = true
		}
	case 2:
		st.held, st.heldN = "", 0
	}
	return st, out, n
}

// explain applies one operation at the current point of a candidate sequential order: the
// lines the specification makes it deliver must be the next lines the destination
// received, and the destination must have received each of them between the call and
// the return of the operation ("immediately": not after it returned). The pseudo
// operation Kind 3 closes the history: nothing the destination received is left over.
func (r *c15Run) explain(st tState, op *tOp) (bool, tState, string) {
	if op.in.Kind == 3 {
		return st.pos == len(r.curGlobal), st, ""
	}
	ns, want, n := r.step(st, op.in)
	g := r.curGlobal
	if ns.pos+n > len(g) || strings.Join(g[ns.pos:ns.pos+n], "") != want {
		return false, ns, want
	}
	for i := ns.pos; i < ns.pos+n; i++ {
		if t := r.curTicks[i]; t < op.call || t > op.ret {
			return false, ns, want
		}
	}
	ns.pos += n
	return true, ns, want
}

func (r *c15Run) model() porcupine.Model {
	return porcupine.Model{
		Init: func() interface{} { return tState{} },
		Step: func(state, input, output interface{}) (bool, interface{}) {
			ok, ns, _ := r.explain(state.(tState), output.(*tOp))
			return ok, ns
		},
		DescribeOperation: func(input, output interface{}) string {
			return fmt.Sprintf("%v -> %q", input, output.(*tOp).out)
		},
	}
}

var c15LevelsAll = []int8{0, 1, 2, 3, -1, 4, 5, -5, 7, 9, 11, 100, 127, -128, -127}

func (r *c15Run) doOp(w *zerolog.TriggerLevelWriter, lg *zerolog.Logger, inst int, in tIn, viaLogger bool) {
	op := &tOp{in: in, client: zsim.CurID()}
	r.cur[zsim.CurID()] = op
	r.tick++
	op.call = r.tick
	switch in.Kind {
	case 0:
		if viaLogger {
			// the logger hands the same bytes to WriteLevel; the tap below replaces in.Line
			lg.WithLevel(zerolog.Level(in.Level)).Str("l", strings.TrimSuffix(in.Line, "\n")).Msg("")
		} else {
			n, err := w.WriteLevel(zerolog.Level(in.Level), []byte(in.Line))
			if r.miscount != 0 {
				n = len(in.Line) // (whatever count the destination made up may be passed on)
			}
			if (n != len(in.Line) || err != nil) && !zsim.Dying() && !r.faulty {
				zsim.Fail("C15.result", "WriteLevel returned (%d,%v) for a %d-byte line", n, err, len(in.Line))
			}
		}
	case 1:
		w.Trigger()
	case 2:
		w.Close()
	case 4:
		w.Writer = r.dstObjs[in.Level]
	}
	if zsim.Dying() {
		return
	}
	r.tick++
	op.ret = r.tick
	delete(r.cur, zsim.CurID())
	r.hist[inst] = append(r.hist[inst], op)
	zsim.Log("op %v -> %q", in, op.out)
}

// c15Tap sits between a Logger and the TriggerLevelWriter to learn the exact
// bytes of the line.
type c15Tap struct {
	r *c15Run
	w *zerolog.TriggerLevelWriter
}

func (t c15Tap) Write(p []byte) (int, error) { return t.WriteLevel(zerolog.NoLevel, p) }

func (t c15Tap) WriteLevel(l zerolog.Level, p []byte) (int, error) {
	if zsim.Dying() {
		return len(p), nil
	}
	op := t.r.cur[zsim.CurID()]
	op.in.Line = string(p)
	op.in.Level = int8(l)
	return t.w.WriteLevel(l, p)
}

func (r *c15Run) genLine() string {
	r.nLine++
	n := 0
	switch r.ch.Weighted(48, 12, 4, 1) {
	case 0:
		n = r.ch.Intn(30)
	case 1:
		n = 100 + r.ch.Intn(200)
	case 2:
		n = 900 + r.ch.Intn(400)
	case 3:
		n = 65536 + r.ch.Intn(5000) // longer than any 16-bit length field
		zsim.Probe("huge_line")
	}
	if r.oneTask && r.ch.Chance(1, 8000) {
		n = 1<<24 + r.ch.Intn(64) // longer than any 24-bit length field (rare: such a run costs ~100 ms)
		zsim.Probe("line_over_16MiB")
	}
	line := fmt.Sprintf("line%d %s\n", r.nLine, strings.Repeat("z", n))
	if r.lineSeq != nil {
		r.lineSeq[line] = r.nLine
	}
	return line
}

func (c15World) Run(prop string, ch *zsim.Choices, trace bool) *RunResult {
	r := &c15Run{ch: ch, cur: map[int]*tOp{}}
	oldLimit := zerolog.TriggerLevelWriterBufferReuseLimit
	defer func() { zerolog.TriggerLevelWriterBufferReuseLimit = oldLimit }()
	summary := ""
	main := func() {
		s := zsim.S
		zerolog.SetGlobalLevel(zerolog.Level(-128))
		defer zerolog.SetGlobalLevel(zerolog.TraceLevel)
		r.levelDst = ch.Weighted(3, 1) == 0
		r.blockDst = ch.Weighted(3, 1)
		r.cond = zerolog.Level(c15LevelsAll[ch.Intn(len(c15LevelsAll))])
		r.trig = zerolog.Level(c15LevelsAll[ch.Intn(len(c15LevelsAll))])
		zerolog.TriggerLevelWriterBufferReuseLimit = []int{64 * 1024, 1024, 64, 4096}[ch.Intn(4)]
		nTasks := 1 + ch.Weighted(4, 3, 2, 1)
		nInst := 1 + ch.Weighted(3, 2, 1)
		if ch.Chance(1, 6) {
			// a destination that fails every third write. The statement is about destinations
			// that succeed, so the model is not applied; what still must hold is that no line
			// is accepted twice
			r.faulty = true
			r.lineSeq = map[string]int{}
			nTasks = 1
		}
		s.ArmDraw([]string{"writer.go"})
		r.oneTask = nTasks == 1 // (runs with a 16 MiB line are kept out of the linearizability search)
		summary = fmt.Sprintf("cond=%d trig=%d level-dst=%v blocking-dst=%d tasks=%d writers=%d reuse-limit=%d", r.cond, r.trig, r.levelDst, r.blockDst, nTasks, nInst, zerolog.TriggerLevelWriterBufferReuseLimit)
		zsim.Log("config: %s", summary)
		var dst interface {
			Write([]byte) (int, error)
		}
		if !r.faulty {
			r.miscount = ch.Weighted(6, 1, 1, 1)
			if nTasks == 1 && ch.Chance(1, 5) {
				r.retarget = true
				zsim.Probe("writer_field_reassigned")
			}
		}
		mk := func(id int) io.Writer {
			if r.levelDst {
				return c15LevelDst{c15Dst{r, id}}
			}
			return c15PlainDst{c15Dst{r, id}}
		}
		r.dstObjs = []io.Writer{mk(0), mk(1)}
		dst = r.dstObjs[0]
		for inst := 0; inst < nInst; inst++ {
			r.hist = append(r.hist, nil)
			r.gstart = append(r.gstart, len(r.global))
			w := &zerolog.TriggerLevelWriter{Writer: dst, ConditionalLevel: r.cond, TriggerLevel: r.trig}
			lg := zerolog.New(c15Tap{r, w}).Level(zerolog.Level(-128))
			// at most ~24 ops per instance keep the linearizability check tractable
			per := 1 + ch.Intn(24/nTasks)
			if inst == 0 && nTasks >= 2 && int8(r.cond) < int8(r.trig) && r.cond != 10 && ch.Chance(1, 1500) {
				// a long history first: thousands of lines are held (written one after the other)
				// before the writers start to trigger, write and close concurrently
				zsim.Probe("thousands_of_held_lines")
				nHeld := 4090 + ch.Intn(20)
				for i := 0; i < nHeld; i++ {
					r.nLine++
					line := fmt.Sprintf("h%d\n", r.nLine)
					if r.lineSeq != nil {
						r.lineSeq[line] = r.nLine
					}
					r.doOp(w, &lg, inst, tIn{Kind: 0, Level: int8(r.cond), Line: line}, false)
				}
			}
			var ts []*zsim.Task
			for t := 0; t < nTasks; t++ {
				inst := inst
				ts = append(ts, zsim.Spawn(fmt.Sprintf("w%d.%d", inst, t), func() {
					for i := 0; i < per; i++ {
						var in tIn
						via := false
						wRe := 0
						if r.retarget {
							wRe = 2
						}
						switch ch.Weighted(14, 2, 1, wRe) {
						case 3:
							in = tIn{Kind: 4, Level: int8(ch.Intn(2))}
						case 0:
							lv := c15LevelsAll[ch.Intn(len(c15LevelsAll))]
							if ch.Chance(1, 2) {
								// bias to the thresholds and their neighbours
								base := []zerolog.Level{r.cond, r.trig}[ch.Intn(2)]
								lv = int8(base) + int8(ch.Intn(3)) - 1
								if (base == 127 && lv < 0) || (base == -128 && lv > 0) {
									lv = int8(base)
								}
							}
							if lv == 10 {
								lv = 11
							}
							in = tIn{Kind: 0, Level: lv, Line: r.genLine()}
							// the logger path cannot express levels outside the defined range meaningfully,
							// but WithLevel accepts any value; NoLevel/Disabled are special, avoid them
							via = ch.Chance(1, 4) && lv != int8(zerolog.NoLevel) && lv != int8(zerolog.Disabled) && lv != int8(zerolog.PanicLevel) && lv != int8(zerolog.FatalLevel)
						case 1:
							in = tIn{Kind: 1}
						case 2:
							in = tIn{Kind: 2}
						}
						r.doOp(w, &lg, inst, in, via)
					}
				}))
			}
			zsim.Join(ts...)
			r.doOp(w, &lg, inst, tIn{Kind: 2}, false)
		}
	}
	s := zsim.Run(zsim.Config{MaxSteps: 500000, Trace: trace}, ch, main)
	return finish(s, ch, summary, func() *zsim.Violation {
		if s.Stuck {
			return viol("C15.blocked", "writers cannot finish: %s", s.StuckInfo)
		}
		if s.Truncated {
			return nil
		}
		if r.faulty {
			// (no order clause here: a held line is legitimately released after later lines
			// that were passed through at once)
			seen := map[string]bool{}
			for _, l := range r.accepted {
				if seen[l] {
					return viol("C15.duplicate", "with a destination that fails some writes, line %s was accepted twice", clipS(l, 40))
				}
				seen[l] = true
			}
			return nil
		}
		r.gstart = append(r.gstart, len(r.global))
		for inst, h := range r.hist {
			r.curGlobal = r.global[r.gstart[inst]:r.gstart[inst+1]]
			r.curTicks = r.gtick[r.gstart[inst]:r.gstart[inst+1]]
			h = append(h, &tOp{in: tIn{Kind: 3}, call: r.tick + 1, ret: r.tick + 2, client: -1})
			// sequential histories: op by op, for a readable message
			seq := true
			for i := 1; i < len(h); i++ {
				if h[i].call < h[i-1].ret {
					seq = false
				}
			}
			if seq {
				st := tState{}
				for i, op := range h {
					ok, ns, want := r.explain(st, op)
					if !ok && op.in.Kind == 3 {
						return viol("C15.sequence", "writer %d: the destination received %d line(s) more than the specification gives for this history: %s (cond=%d trig=%d)", inst, len(r.curGlobal)-st.pos, clipS(strings.Join(r.curGlobal[st.pos:], " "), 300), r.cond, r.trig)
					}
					if !ok {
						return viol("C15.sequence", "writer %d, operation %d %v: between its call and its return the destination received %q, the specification gives %q (cond=%d trig=%d)", inst, i, descIn(op.in), clipS(op.out, 300), clipS(want, 300), r.cond, r.trig)
					}
					st = ns
				}
				continue
			}
			var ops []porcupine.Operation
			for _, op := range h {
				ops = append(ops, porcupine.Operation{ClientId: op.client, Input: op.in, Call: op.call, Output: op, Return: op.ret})
			}
			switch porcupine.CheckOperationsTimeout(r.model(), ops, 8*time.Second) {
			case porcupine.Illegal:
				var d []string
				for _, op := range h {
					d = append(d, fmt.Sprintf("[%d..%d] c%d %s -> %q", op.call, op.ret, op.client, descIn(op.in), clipS(op.out, 80)))
				}
				return viol("C15.linearizability", "writer %d: no sequential order of the concurrent operations explains what the destination received, in which order, and when (each line between the call and the return of the operation that delivers it) (cond=%d trig=%d); operations with what arrived during each:\n%s\ndestination order: %s", inst, r.cond, r.trig, strings.Join(d, "\n"), clipS(strings.Join(r.curGlobal, " "), 600))
			case porcupine.Unknown:
				s.Probes["linearizability_inconclusive"]++
			default:
				s.Probes["linearizable_histories"]++
			}
		}
		return nil
	})
}

func descIn(in tIn) string {
	switch in.Kind {
	case 0:
		return fmt.Sprintf("WriteLevel(%d,%s)", in.Level, clipS(in.Line, 24))
	case 1:
		return "Trigger()"
	case 3:
		return "(end of history: nothing else arrived)"
	case 4:
		return fmt.Sprintf("Writer = destination %d", in.Level)
	}
	return "Close()"
}

func clipS(s string, n int) string {
	if len(s) <= n {
		return s
	}
	return s[:n] + fmt.Sprintf("...(%d bytes)", len(s))
}
