package worlds

import (
	"fmt"
	"io"
	stdlog "log"
	"os"
	"time"

	"github.com/rs/zerolog"
	"github.com/rs/zerolog/diode"
	zlog "github.com/rs/zerolog/log"
	"github.com/rs/zerolog/zsim"
)

// c06race is the C06 world for binaries built with -race: the same kind of
// concurrent logging as c06, but without any bookkeeping shared between tasks
// (no maps, no recorded writes), because under the spin baton of race mode the
// race detector sees no happens-before edge between tasks except those the
// code under test creates itself. The only oracle is the race detector
// (GORACE=halt_on_error=1: the worker exits with status 66 and the runner
// reproduces the announced run).
type c06RaceWorld struct{}

func init() { register("c06race", c06RaceWorld{}) }

func (c06RaceWorld) Props() []string { return nil }

func (c06RaceWorld) Components() (real, stub []string) {
	return []string{"same as c06, built with -race"}, []string{"destination writers that read the whole buffer before and after a yield", "spin baton (plain word, //go:norace)"}
}

// raceSink reads every byte it is given, yields, and reads again; it keeps no
// state, so two tasks inside it at once do not race on the sink itself.
type raceSink struct{}

//go:noinline
func sumBytes(p []byte) (s byte) {
	for _, b := range p {
		s += b
	}
	return
}

func (raceSink) Write(p []byte) (int, error) {
	if zsim.Dying() {
		return len(p), nil
	}
	a := sumBytes(p)
	zsim.Yield("sink.Write")
	zsim.Yield("sink.Write")
	b := sumBytes(p)
	if a != b {
		zsim.Fail("C06.mutated", "buffer changed during Write")
	}
	return len(p), nil
}

type raceLevelSink struct{ raceSink }

func (s raceLevelSink) WriteLevel(l zerolog.Level, p []byte) (int, error) { return s.Write(p) }

type raceHook struct{ name string }

func (h raceHook) Run(e *zerolog.Event, l zerolog.Level, msg string) {
	zsim.Yield("hook")
	e.Str("hook", h.name)
}

type raceChain struct {
	logger int
	level  zerolog.Level
	ops    []fop
	fin    int
	id     string
}

func (c06RaceWorld) Run(prop string, ch *zsim.Choices, trace bool) *RunResult {
	oldTS, oldEH, oldSM := zerolog.TimestampFunc, zerolog.ErrorHandler, zerolog.ErrorStackMarshaler
	oldG := zlog.Logger
	defer func() {
		zerolog.TimestampFunc, zerolog.ErrorHandler, zerolog.ErrorStackMarshaler = oldTS, oldEH, oldSM
		zlog.Logger = oldG
		zerolog.SetGlobalLevel(zerolog.TraceLevel)
		zerolog.DisableSampling(false)
	}()
	summary := ""
	main := func() {
		s := zsim.S
		zerolog.SetGlobalLevel(zerolog.TraceLevel)
		zerolog.DisableSampling(false)
		// a different second for every task
		zerolog.TimestampFunc = func() time.Time { return refTime.Add(time.Duration(zsim.CurID()) * time.Second) }
		zerolog.ErrorHandler = func(err error) {}
		zerolog.ErrorStackMarshaler = func(err error) interface{} { return "STACK" }
		var a io.Writer = raceSink{}
		var b io.Writer = raceLevelSink{}
		dk := ch.Intn(9)
		var dest, extra io.Writer
		switch dk {
		case 0:
			dest = a
		case 1:
			dest = zerolog.SyncWriter(a)
		case 2:
			dest = zerolog.MultiLevelWriter(a, b)
		case 3:
			dest = zerolog.ConsoleWriter{Out: a, NoColor: true, TimeFormat: time.RFC3339}
		case 4:
			dest = zerolog.SyncWriter(zerolog.MultiLevelWriter(a, b))
		case 5:
			dest = b
		case 6:
			dest = zerolog.SyncWriter(a)
			extra = zerolog.SyncWriter(dest)
		case 7:
			dest = zerolog.NewConsoleWriter(func(w *zerolog.ConsoleWriter) {
				w.Out = a
				w.NoColor = true
				w.TimeFormat = time.RFC3339
				w.FieldsOrder = []string{"f1", "id", "f0", "f3", "hook"}
				w.FieldsExclude = []string{"f5"}
			})
		case 8:
			dest = &zerolog.TriggerLevelWriter{Writer: b, ConditionalLevel: zerolog.DebugLevel, TriggerLevel: zerolog.ErrorLevel}
		}
		root := zerolog.New(dest)
		loggers := []zerolog.Logger{root}
		if extra != nil {
			loggers = append(loggers, root.Output(extra))
		}
		nl := ch.Intn(5)
		for i := 0; i < nl; i++ {
			parent := loggers[ch.Intn(len(loggers))]
			switch ch.Intn(9) {
			case 0, 1:
				loggers = append(loggers, applyCtx(parent.With(), genOps(ch, 1+ch.Intn(3), 1, fmt.Sprintf("c%d_", i))).Logger())
			case 2:
				loggers = append(loggers, parent.Level(zerolog.WarnLevel))
			case 3:
				loggers = append(loggers, parent.Hook(raceHook{fmt.Sprintf("h%d", i)}))
			case 4:
				loggers = append(loggers, parent.Sample(&zerolog.BasicSampler{N: uint32(1 + ch.Intn(3))}))
			case 5:
				loggers = append(loggers, parent.Sample(zerolog.LevelSampler{InfoSampler: &zerolog.BurstSampler{Burst: 2, Period: time.Second, NextSampler: &zerolog.BasicSampler{N: 2}}}))
			case 6:
				loggers = append(loggers, parent.With().Timestamp().Logger())
			case 7:
				loggers = append(loggers, parent.Sample(zerolog.RandomSampler(2)))
			case 8:
				loggers = append(loggers, parent.Sample(zerolog.LevelSampler{DebugSampler: zerolog.Often, InfoSampler: zerolog.Sometimes}))
			}
		}
		zlog.Logger = root.With().Str("global", "g").Logger()
		nTasks := 2 + ch.Weighted(4, 3, 2, 1)
		flips := ch.Chance(1, 4)
		var per [][]raceChain
		for t := 0; t < nTasks; t++ {
			n := 1 + ch.Intn(5)
			var cs []raceChain
			for k := 0; k < n; k++ {
				cs = append(cs, raceChain{
					logger: ch.Intn(len(loggers) + 1),
					level:  c6Levels[ch.Intn(len(c6Levels))],
					ops:    genOps(ch, ch.Intn(6), 0, "f"),
					fin:    ch.Intn(4),
					id:     fmt.Sprintf("t%d.%d", t, k),
				})
			}
			per = append(per, cs)
		}
		summary = fmt.Sprintf("race-mode dest=%d tasks=%d loggers=%d level-flips=%v", dk, nTasks, len(loggers)+1, flips)
		s.ArmDraw([]string{"event.go", "array.go", "log.go", "writer.go", "console.go", "globals.go", "context.go", "fields.go", "sampler.go", "encoder", "internal/json/", "log/"})
		var tasks []*zsim.Task
		for t := 0; t < nTasks; t++ {
			cs := per[t]
			tasks = append(tasks, zsim.Spawn(fmt.Sprintf("log%d", t), func() {
				for _, c := range cs {
					var e *zerolog.Event
					if c.logger == len(loggers) {
						e = zlog.WithLevel(c.level)
					} else {
						e = loggers[c.logger].WithLevel(c.level)
					}
					e = applyEvent(e.Str("id", c.id), c.ops)
					switch c.fin {
					case 0:
						e.Msg("m:" + c.id)
					case 1:
						e.Send()
					case 2:
						e.Msgf("%s", c.id)
					case 3:
						e.MsgFunc(func() string { return "f:" + c.id })
					}
				}
			}))
		}
		if flips {
			tasks = append(tasks, zsim.Spawn("flipper", func() {
				for i := 0; i < 6; i++ {
					if i%2 == 0 {
						zerolog.SetGlobalLevel(zerolog.ErrorLevel)
					} else {
						zerolog.SetGlobalLevel(zerolog.TraceLevel)
					}
					zerolog.DisableSampling(i%3 == 0)
					for j := 0; j < 10; j++ {
						zsim.Yield("flipper")
					}
				}
				zerolog.SetGlobalLevel(zerolog.TraceLevel)
				zerolog.DisableSampling(false)
			}))
		}
		zsim.Join(tasks...)
	}
	s := zsim.Run(zsim.Config{MaxSteps: 400000, Trace: trace}, ch, main)
	return finish(s, ch, summary, nil)
}

// dioderace is the diode world for -race binaries: producers, the consumer,
// the cancel path and Close with no shared bookkeeping; oracle = race detector.
type diodeRaceWorld struct{}

func init() { register("dioderace", diodeRaceWorld{}) }

func (diodeRaceWorld) Props() []string { return nil }

func (diodeRaceWorld) Components() (real, stub []string) {
	return []string{"same as the diode world, built with -race"}, []string{"wrapped writer that reads the whole buffer before and after a yield", "spin baton (plain word, //go:norace)"}
}

func (diodeRaceWorld) Run(prop string, ch *zsim.Choices, trace bool) *RunResult {
	summary := ""
	stdlog.SetFlags(0)
	stdlog.SetOutput(io.Discard)
	defer stdlog.SetOutput(os.Stderr)
	main := func() {
		s := zsim.S
		zerolog.SetGlobalLevel(zerolog.TraceLevel)
		ring := []int{2, 1, 3, 4, 8}[ch.Intn(5)]
		interval := []time.Duration{0, time.Millisecond}[ch.Weighted(3, 2)]
		nProd := 1 + ch.Weighted(2, 4, 2, 1)
		nWrites := 1 + ch.Intn(5)
		viaLogger := ch.Chance(1, 2)
		closeEarly := ch.Chance(1, 4)
		s.ArmDraw([]string{"diode/"})
		summary = fmt.Sprintf("race-mode ring=%d interval=%v producers=%d writes=%d logger=%v close-early=%v", ring, interval, nProd, nWrites, viaLogger, closeEarly)
		alerts := 0
		dw := diode.NewWriter(raceSink{}, ring, interval, func(missed int) { alerts += missed })
		lg := zerolog.New(dw)
		var ts []*zsim.Task
		for p := 0; p < nProd; p++ {
			p := p
			ts = append(ts, zsim.Spawn(fmt.Sprintf("prod%d", p), func() {
				for k := 0; k < nWrites; k++ {
					if viaLogger {
						lg.Log().Int("p", p).Int("k", k).Msg("")
					} else {
						buf := []byte(fmt.Sprintf("p%d.%d|payload", p, k))
						dw.Write(buf)
						for i := range buf {
							buf[i] = '#'
						}
					}
				}
			}))
		}
		if closeEarly {
			for i := 0; i < 8; i++ {
				zsim.Yield("closer")
			}
			dw.Close()
			zsim.Join(ts...)
			return
		}
		zsim.Join(ts...)
		zsim.Sleep(3*interval + time.Millisecond)
		dw.Close()
	}
	s := zsim.Run(zsim.Config{MaxSteps: 100000, Trace: trace}, ch, main)
	return finish(s, ch, summary, nil)
}
