package worlds

import (
	"bytes"
	"context"
	"errors"
	"fmt"
	"io"
	stdlog "log"
	"os"
	"runtime"
	"strings"
	"time"

	"github.com/rs/zerolog"
	"github.com/rs/zerolog/diode"
	"github.com/rs/zerolog/zsim"
)

// The diode world serves C10 (never blocks / integrity / order), C11 (nothing
// lost silently, Close drains) and C12 (prompt delivery, Close returns).
type diodeWorld struct{}

func init() { register("diode", diodeWorld{}) }

func (diodeWorld) Props() []string { return []string{"C10", "C11", "C12"} }

func (diodeWorld) Components() (real, stub []string) {
	return []string{"diode.Writer (NewWriter, Write, Close, poll)", "diodes.ManyToOne (Set, TryNext)", "diodes.Waiter", "diodes.Poller", "zerolog.Logger/Event (logger path, Fatal path)", "context cancellation (stdlib)"},
		[]string{"wrapped writer (recording sink with delays, stalls, errors, short writes)", "alerter (recorder, optionally re-entrant)", "stdlib log output (collision line counter)", "sync.Mutex/Cond/Pool, sync/atomic, time.Sleep, go statements, os.Exit (scheduler-controlled shims around the real operations)"}
}

type dMsg struct {
	id        string
	prod, k   int
	data      []byte
	inv, ret  int // event ticks; -1 = not yet
	delivered int
	pos       int
	delivTick int   // tick of the (first) delivery
	invOwn    int   // the calling task's count of solo steps (zsim.Task.Solo) at invocation
	invNow    int64 // simulated time at invocation
	task      *zsim.Task
}

const (
	scNormal = iota // producers; idle; Close
	scStallForever
	scCloseConcurrent
	scFatal
)

var scNames = []string{"normal", "sink-stalled-forever", "close-while-writing", "fatal"}

type dRun struct {
	prop string
	ch   *zsim.Choices

	ring       int
	interval   time.Duration
	nProd      int
	nWrites    int
	viaLogger  bool
	closeAsked bool
	// quietK > 0: after the idle check, wait until about quietK poll intervals have passed
	// since the last delivery, write one more message and check promptness again
	quietK       int
	lastDelivNow int64
	scenario     int
	reentrant    bool
	sinkKind     int
	sinkDelay    time.Duration
	stallAt      int
	stallFor     time.Duration
	gap          int
	fatalWait    bool
	errKind      int
	twoClosers   bool  // a second goroutine calls Close at the same time
	closeRets    []int // tick at which each Close call returned
	alertAt      [][2]int
	neighbour    bool // a second diode.Writer shares the package-level buffer pool
	closeTwice   bool
	close2Inv    int
	close2Ret    int
	nbWritten    map[string]bool
	nbSeen       map[string]bool
	fatalFilt    int // 0: the Fatal event is enabled; 1: logger level Disabled; 2: global level Disabled
	skipIdle     bool

	tick          int
	msgs          []*dMsg
	byData        map[string]*dMsg
	pending       map[int]*dMsg
	deliveries    []*dMsg
	lastK         map[int]int
	alertSum      int
	alertCalls    int
	collisions    int
	sinkIn        int
	sinkCalls     int
	started       int
	maxOut        int
	closeInv      int
	closeRet      int
	firstCloseInv int  // tick of the first Close call by anyone
	nilAlerter    bool // NewWriter was given a nil alerter: drops are not reported to anybody
	consumerGone  bool // a user callback ended the consumer goroutine (runtime.Goexit, as t.FailNow does)
	level         zerolog.Level
	hasLevel      bool
	nestedClose   bool // closing the wrapped writer closes the neighbour diode.Writer too
	nbClose       func()
	fatalMsg      *dMsg
	phaseBDone    bool
	settled       bool
	prodTasks     []*zsim.Task
	dw            diode.Writer
	tap           *dTap
	sinkErrs      int
	sinkClosed    int // tick at which Close of the wrapped writer was called
	closeNow      int64
}

func (r *dRun) on(p string) bool { return r.prop == p }

func (r *dRun) t() int { r.tick++; return r.tick }

type dTap struct{ r *dRun }

// WriteLevel makes the tap a zerolog.LevelWriter: whatever level-aware entry point the
// diode.Writer may have is the one a Logger would pick up.
func (t *dTap) WriteLevel(l zerolog.Level, p []byte) (int, error) {
	t.r.level, t.r.hasLevel = l, true
	defer func() { t.r.hasLevel = false }()
	return t.Write(p)
}

func (t *dTap) Write(p []byte) (int, error) {
	r := t.r
	if zsim.Dying() {
		return len(p), nil
	}
	m := r.pending[zsim.CurID()]
	if m == nil {
		zsim.Fail("harness", "tap.Write without a pending message")
	}
	delete(r.pending, zsim.CurID())
	m.data = append([]byte(nil), p...)
	r.byData[string(m.data)] = m
	m.inv = r.t()
	m.task = zsim.Cur()
	m.invOwn = m.task.Solo
	m.invNow = zsim.S.Now()
	r.started++
	if o := r.started - r.sinkCalls; o > r.maxOut {
		r.maxOut = o
	}
	zsim.Log("Write(%s) invoked", m.id)
	var n int
	var err error
	if lw, ok := interface{}(r.dw).(zerolog.LevelWriter); ok && r.hasLevel {
		n, err = lw.WriteLevel(r.level, p)
	} else {
		n, err = r.dw.Write(p)
	}
	if zsim.Dying() {
		return n, err
	}
	m.ret = r.t()
	zsim.Log("Write(%s) returned", m.id)
	if n != len(p) || err != nil {
		zsim.Fail(r.prop+".write_result", "Write(%s) returned (%d, %v) for %d bytes", m.id, n, err, len(p))
	}
	return n, err
}

func (t *dTap) Close() error {
	r := t.r
	if zsim.Dying() {
		return nil
	}
	if !r.closeAsked {
		// only Fatal is documented to close the writer; a logger that closes it on its own
		// leaves everything the application writes afterwards undelivered and unreported
		zsim.Fail(r.prop+".closed_unasked", "the diode writer was closed although the application neither called Close nor logged a fatal event (a recovered Panic() event was the last thing logged): later messages are lost without a report")
	}
	r.closeInv = r.t()
	if r.firstCloseInv == 0 {
		r.firstCloseInv = r.closeInv
	}
	r.closeNow = zsim.S.Now()
	zsim.Log("Close invoked")
	err := r.dw.Close()
	if zsim.Dying() {
		return err
	}
	r.closeRet = r.t()
	r.closeRets = append(r.closeRets, r.closeRet)
	zsim.Log("Close returned")
	return err
}

type dSink struct{ r *dRun }

// tempErr is an error that calls itself temporary (net.Error style).
type tempErr struct{}

func (tempErr) Error() string   { return "temporary failure" }
func (tempErr) Temporary() bool { return true }
func (tempErr) Timeout() bool   { return true }

var sinkErrors = []error{errors.New("sink error"), os.ErrClosed, io.ErrClosedPipe, tempErr{}, io.ErrShortWrite, context.DeadlineExceeded, io.EOF}

func (k *dSink) Write(p []byte) (int, error) {
	r := k.r
	if zsim.Dying() {
		return len(p), nil
	}
	idx := r.sinkCalls
	r.sinkCalls++
	r.sinkIn++
	if r.sinkIn > 1 && r.on("C10") {
		zsim.Fail("C10.overlap", "two deliveries in flight at the wrapped writer")
	}
	sum := fnv(p)
	entry := append([]byte(nil), p...)
	m := r.byData[string(p)]
	if m == nil {
		if r.on("C10") {
			zsim.Fail("C10.integrity", "delivered buffer equals no written payload: %s", clip(p, 80))
		}
	} else {
		m.delivered++
		if m.delivered == 1 {
			m.delivTick = r.t()
			r.lastDelivNow = zsim.S.Now()
		}
		if r.sinkClosed > 0 && r.on("C11") && r.owed(m) {
			// (a message whose Write began after Close had been called - an alerter that writes
			// back into the diode while Close reports the last drops - is outside the statement:
			// what a later Close does with it is not specified)
			zsim.Fail("C11.delivery_after_close", "message %s was handed to the wrapped writer after that writer had been closed", m.id)
		}
		if m.delivered > 1 && r.on("C10") {
			zsim.Fail("C10.duplicate", "message %s delivered twice", m.id)
		}
		m.pos = len(r.deliveries)
		if r.on("C10") {
			if last, ok := r.lastK[m.prod]; ok && last >= m.k {
				zsim.Fail("C10.order", "producer %d: message %s delivered after its later message #%d", m.prod, m.id, last)
			}
			for _, b := range r.deliveries {
				if m.ret >= 0 && m.ret < b.inv {
					zsim.Fail("C10.order", "Write(%s) returned before Write(%s) was invoked, but %s was delivered first", m.id, b.id, b.id)
				}
			}
		}
		r.lastK[m.prod] = m.k
		r.deliveries = append(r.deliveries, m)
		zsim.Log("deliver %s", m.id)
	}
	// behaviour
	zsim.Yield("sink.Write")
	if r.scenario == scStallForever && idx == r.stallAt {
		zsim.Fault("sink_stall_forever")
		zsim.Block("sink stalled forever", func() bool { return false })
	}
	switch r.sinkKind {
	case 6:
		if idx == r.stallAt {
			// the user's writer ends the goroutine it is called on (testing.T.FailNow does):
			// the consumer is gone, Close must still return
			zsim.Fault("sink_goexit")
			r.consumerGone = true
			r.sinkIn--
			runtime.Goexit()
		}
	case 1:
		zsim.Fault("sink_slow")
		zsim.Sleep(r.sinkDelay)
	case 2:
		if idx == r.stallAt {
			zsim.Fault("sink_stall")
			zsim.Sleep(r.stallFor)
		}
	}
	if zsim.Dying() {
		return len(p), nil
	}
	if fnv(p) != sum || !bytes.Equal(p, entry) {
		if r.on("C10") {
			zsim.Fail("C10.integrity", "buffer changed while the wrapped writer was inside Write: was %s now %s", clip(entry, 60), clip(p, 60))
		}
	}
	r.sinkIn--
	switch r.sinkKind {
	case 3:
		if idx%2 == 0 {
			zsim.Fault("sink_error")
			r.sinkErrs++
			return 0, sinkErrors[r.errKind]
		}
	case 5:
		// from some message on every call fails (a destination that went away)
		if idx >= r.stallAt {
			zsim.Fault("sink_fails_from_now_on")
			r.sinkErrs++
			return 0, sinkErrors[r.errKind]
		}
	case 4:
		zsim.Fault("sink_short_write")
		return len(p) / 2, nil
	}
	return len(p), nil
}

// nbSink is the destination of the neighbour writer: every buffer it receives
// must be one of the neighbour's own payloads, once.
type nbSink struct{ r *dRun }

func (k nbSink) Write(p []byte) (int, error) {
	r := k.r
	if zsim.Dying() {
		return len(p), nil
	}
	s := string(p)
	zsim.Yield("neighbour sink")
	if r.on("C10") {
		if !r.nbWritten[s] {
			zsim.Fail("C10.integrity", "a second diode.Writer sharing the buffer pool received a buffer that equals none of its payloads: %s", clip(p, 80))
		}
		if r.nbSeen[s] {
			zsim.Fail("C10.duplicate", "a second diode.Writer received %s twice", clip(p, 40))
		}
		if string(p) != s {
			zsim.Fail("C10.integrity", "the neighbour's buffer changed while its destination was inside Write")
		}
	}
	r.nbSeen[s] = true
	return len(p), nil
}

// Close makes the sink an io.Closer: diode.Writer.Close must call it after the
// ring has been drained.
func (k *dSink) Close() error {
	if zsim.Dying() {
		return nil
	}
	if k.r.sinkClosed == 0 {
		k.r.sinkClosed = k.r.t()
	}
	zsim.Log("wrapped writer closed")
	if k.r.nestedClose && k.r.nbClose != nil {
		// the destination owns another diode.Writer (a chain of asynchronous stages) and
		// closes it in turn
		zsim.Probe("nested_close")
		k.r.nbClose()
	}
	return nil
}

// dFailWriter refuses every write.
type dFailWriter struct{}

func (dFailWriter) Write(p []byte) (int, error) { return 0, errors.New("first destination refuses") }

// dFailCloser accepts writes and fails to close.
type dFailCloser struct{}

func (dFailCloser) Write(p []byte) (int, error) { return len(p), nil }
func (dFailCloser) Close() error                { return errors.New("sibling cannot be closed") }

type collisionCounter struct{ r *dRun }

func (c collisionCounter) Write(p []byte) (int, error) {
	if strings.Contains(string(p), "Diode set collision") {
		c.r.collisions++
		zsim.Probe("collision_retry")
	}
	return len(p), nil
}

func (r *dRun) newMsg(prod, k int) *dMsg {
	m := &dMsg{id: fmt.Sprintf("p%d.%d", prod, k), prod: prod, k: k, inv: -1, ret: -1}
	r.msgs = append(r.msgs, m)
	return m
}

func (r *dRun) pad() int {
	switch r.ch.Weighted(20, 4, 1) {
	case 1:
		return 500 + r.ch.Intn(300)
	case 2:
		return 66000
	}
	return r.ch.Intn(24)
}

func (r *dRun) directWrite(m *dMsg, pad int) {
	buf := make([]byte, 0, len(m.id)+1+pad)
	buf = append(buf, m.id...)
	buf = append(buf, '|')
	for i := 0; i < pad; i++ {
		buf = append(buf, byte('a'+(i+m.k)%26))
	}
	r.pending[zsim.CurID()] = m
	r.tap.Write(buf)
	// the caller owns buf again: scribble over it
	for i := range buf {
		buf[i] = '#'
	}
}

func (r *dRun) producer(p int, lg zerolog.Logger, fatal bool) func() {
	return func() {
		for k := 0; k < r.nWrites; k++ {
			m := r.newMsg(p, k)
			pad := r.pad()
			if r.viaLogger {
				r.pending[zsim.CurID()] = m
				// every level a logger can carry (WithLevel neither exits nor panics)
				lv := []zerolog.Level{zerolog.NoLevel, zerolog.InfoLevel, zerolog.ErrorLevel, zerolog.PanicLevel, zerolog.FatalLevel, zerolog.DebugLevel}[(p+k)%6]
				if lv == zerolog.PanicLevel && r.ch.Chance(1, 2) {
					// a real Panic(): the event is written, then the call panics and the application
					// recovers and carries on logging
					zsim.Probe("recovered_panic_event")
					func() {
						defer func() {
							// (a filtered Panic() still panics, with an empty message)
							if v := recover(); v != nil && v != "recovered by the application" && v != "" {
								panic(v)
							}
						}()
						lg.Panic().Str("m", m.id).Str("pad", strings.Repeat("x", pad)).Msg("recovered by the application")
					}()
				} else {
					lg.WithLevel(lv).Str("m", m.id).Str("pad", strings.Repeat("x", pad)).Msg("")
				}
			} else {
				r.directWrite(m, pad)
			}
			switch r.gap {
			case 1:
				zsim.Yield("producer gap")
			case 2:
				zsim.Sleep(time.Duration(r.ch.Intn(3)) * 500 * time.Microsecond)
			}
		}
		if fatal {
			if r.fatalWait {
				var others []*zsim.Task
				for i, t := range r.prodTasks {
					if i != p {
						others = append(others, t)
					}
				}
				zsim.Join(others...)
			}
			m := r.newMsg(p, r.nWrites)
			r.fatalMsg = m
			r.pending[zsim.CurID()] = m
			flg := lg
			switch r.fatalFilt {
			case 1:
				// a filtered Fatal writes nothing but still closes the writer and exits
				flg = lg.Level(zerolog.Disabled)
				zsim.Probe("fatal_filtered")
			case 2:
				zerolog.SetGlobalLevel(zerolog.Disabled)
				zsim.Probe("fatal_filtered")
			case 3:
				// the fatal event goes through a fan-out whose first destination fails, and the
				// ErrorHandler logs through another logger (the pooled event is in use again
				// before Fatal's close-and-exit step runs)
				zsim.Probe("fatal_with_logging_error_handler")
				other := zerolog.New(io.Discard)
				zerolog.ErrorHandler = func(err error) { other.Info().Err(err).Msg("write failed") }
				flg = zerolog.New(zerolog.MultiLevelWriter(dFailWriter{}, r.tap))
			case 4:
				// the diode first, then a sibling whose Close fails: Fatal closes the writers in
				// the order they were given, so the diode is drained before anything can go wrong
				zsim.Probe("fatal_with_failing_sibling_close")
				flg = zerolog.New(zerolog.MultiLevelWriter(r.tap, dFailCloser{}))
			}
			r.closeAsked = true
			flg.Fatal().Str("m", m.id).Msg("fatal")
			zsim.Fail("harness", "Fatal().Msg returned")
		}
	}
}

// deliveredInTime: a delivery counts for C11 only if it happened before Close returned.
func (r *dRun) deliveredInTime(m *dMsg) bool {
	if m.delivered == 0 {
		return false
	}
	if r.prop == "C11" && r.closeRet > 0 && m.delivTick > r.closeRet {
		return false
	}
	return true
}

// owed: C11 is about the messages whose Write had returned when Close was called. A
// Write that the alerter makes from inside the drain of a Close (a re-entrant alerter
// logging through the same writer) comes after that point: it may be delivered, but
// nothing is promised for it.
func (r *dRun) owed(m *dMsg) bool {
	if m.ret < 0 {
		return false
	}
	return r.firstCloseInv == 0 || m.ret < r.firstCloseInv
}

// lossBlind: runs in which "delivered or reported" cannot be observed or cannot hold by
// the user's own doing: there is no alerter to report to and the ring was lapped, or a
// callback of the user killed the consumer goroutine. What remains checked there: Writes
// and Close return, nothing is corrupted or duplicated, nothing panics.
func (r *dRun) lossBlind() bool {
	return (r.nilAlerter && r.maxOut > r.ring) || r.consumerGone
}

func (r *dRun) missing() (n int, ids []string) {
	if r.lossBlind() {
		return 0, nil
	}
	for _, m := range r.msgs {
		if r.owed(m) && !r.deliveredInTime(m) {
			n++
			ids = append(ids, m.id)
		}
	}
	return
}

func (r *dRun) written() int {
	n := 0
	for _, m := range r.msgs {
		if r.owed(m) {
			n++
		}
	}
	return n
}

// lateWrites: Writes that returned after the first Close call was made.
func (r *dRun) lateWrites() int {
	n := 0
	for _, m := range r.msgs {
		if m.ret >= 0 && !r.owed(m) {
			n++
		}
	}
	return n
}

func (r *dRun) config() {
	c := r.ch
	r.ring = []int{2, 1, 3, 4, 8}[c.Intn(5)]
	r.interval = []time.Duration{0, time.Millisecond, 10 * time.Millisecond}[c.Weighted(5, 3, 2)]
	r.nProd = 1 + c.Weighted(4, 4, 2, 1)
	r.nWrites = 1 + c.Intn(6)
	if zsim.Deep {
		r.ring = []int{2, 1, 3, 4, 8, 5, 16}[c.Intn(7)]
		r.nProd = 1 + c.Intn(6)
		r.nWrites = 1 + c.Intn(8)
	}
	r.neighbour = c.Chance(1, 4)
	r.closeTwice = c.Chance(1, 4)
	r.viaLogger = c.Chance(1, 3)
	var w []int
	switch r.prop {
	case "C10":
		w = []int{4, 3, 2, 1}
	case "C11":
		w = []int{6, 0, 1, 3}
	default:
		w = []int{6, 0, 3, 1}
	}
	r.scenario = c.Weighted(w...)
	r.reentrant = c.Chance(1, 6)
	r.sinkKind = c.Weighted(16, 6, 6, 2, 2, 2, 1)
	r.errKind = c.Intn(len(sinkErrors))
	r.twoClosers = c.Chance(1, 4)
	r.sinkDelay = []time.Duration{time.Microsecond, 100 * time.Microsecond, 5 * time.Millisecond}[c.Intn(3)]
	r.stallAt = c.Intn(4)
	r.stallFor = []time.Duration{50 * time.Millisecond, time.Second}[c.Intn(2)]
	r.gap = c.Weighted(5, 3, 2)
	r.fatalWait = c.Weighted(1, 2) == 1
	r.fatalFilt = c.Weighted(4, 1, 1, 1, 1)
	r.skipIdle = r.prop != "C12" && c.Chance(1, 2)
	if r.scenario == scFatal {
		r.viaLogger = true
	}
	if r.scenario == scNormal && r.interval > 0 && c.Chance(1, 40) {
		base := []int{1000, 1024, 2048, 4096, 100, 256, 512}[c.Intn(7)]
		r.quietK = base + c.Intn(3) - 1
		if c.Chance(1, 4) {
			r.quietK = 1 + c.Intn(300)
		}
		r.sinkKind = 0
	}
	if r.scenario == scNormal && c.Chance(1, 100) {
		// a long history: one producer bursts hundreds of messages into a tiny ring in front of
		// an interleaving consumer - hundreds of separate drop reports within one simulated second
		r.ring = 1 + c.Intn(2)
		r.nProd = 1
		r.nWrites = 150 + c.Intn(100)
		r.gap = 1
		r.sinkKind = 0
		r.viaLogger, r.reentrant, r.neighbour = false, false, false
		zsim.Probe("long_burst")
		if c.Chance(1, 2) {
			// or a big ring that fills up to most of its capacity behind a stalled writer and
			// is never lapped: nothing may be dropped
			r.ring = []int{96, 128, 300, 513}[c.Intn(4)]
			r.nWrites = r.ring*2/3 + c.Intn(r.ring/4)
			r.sinkKind = 2
			r.stallAt = 0
			zsim.Probe("big_ring_nearly_full")
		}
		return
	}
	if r.scenario == scNormal && c.Chance(1, 12) {
		// a writer that is created and closed without ever being written to (a per-level
		// writer whose level never occurred)
		r.nWrites = 0
		zsim.Probe("never_written")
	}
}

func (r *dRun) summary() string {
	mode := "waiter"
	if r.interval > 0 {
		mode = "poller/" + r.interval.String()
	}
	return fmt.Sprintf("ring=%d %s producers=%d writes=%d logger=%v scenario=%s reentrant-alerter=%v sink=%d gap=%d close-at-once=%v",
		r.ring, mode, r.nProd, r.nWrites, r.viaLogger, scNames[r.scenario], r.reentrant, r.sinkKind, r.gap, r.skipIdle)
}

func (diodeWorld) Run(prop string, ch *zsim.Choices, trace bool) *RunResult {
	r := &dRun{prop: prop, ch: ch, byData: map[string]*dMsg{}, pending: map[int]*dMsg{}, lastK: map[int]int{}}
	stdlog.SetFlags(0)
	stdlog.SetOutput(collisionCounter{r})
	defer stdlog.SetOutput(os.Stderr)
	defer zerolog.SetGlobalLevel(zerolog.TraceLevel)
	oldEH := zerolog.ErrorHandler
	defer func() { zerolog.ErrorHandler = oldEH }()
	var s *zsim.Sim
	main := func() {
		s = zsim.S
		zerolog.SetGlobalLevel(zerolog.TraceLevel)
		r.config()
		s.ArmDraw([]string{"diode/"})
		zsim.Log("config: %s", r.summary())
		sink := &dSink{r}
		r.tap = &dTap{r}
		var alerter diode.Alerter
		alerter = func(missed int) {
			if zsim.Dying() {
				return
			}
			r.alertSum += missed
			r.alertCalls++
			r.alertAt = append(r.alertAt, [2]int{r.t(), missed})
			zsim.Probe("alert")
			zsim.Log("alert(%d)", missed)
			if missed <= 0 && r.on("C10") {
				zsim.Fail("C10.alert_bound", "alerter called with %d", missed)
			}
			if r.reentrant && r.alertCalls <= 3 {
				m := r.newMsg(100, r.alertCalls)
				zsim.Probe("reentrant_alert_write")
				r.directWrite(m, 0)
			}
		}
		if r.scenario != scStallForever && !r.reentrant && ch.Chance(1, 12) {
			// no alerter: the user does not want to hear about drops
			r.nilAlerter = true
			alerter = nil
			zsim.Probe("nil_alerter")
		}
		r.dw = diode.NewWriter(sink, r.ring, r.interval, alerter)
		lg := zerolog.New(r.tap)
		var nbTask *zsim.Task
		var nbw diode.Writer
		if r.neighbour {
			// an unrelated writer with its own ring and destination; only the buffer pool is shared
			r.nbWritten, r.nbSeen = map[string]bool{}, map[string]bool{}
			nbw = diode.NewWriter(nbSink{r}, 4, r.interval, func(int) {})
			zsim.Probe("neighbour_writer")
			r.nestedClose = ch.Chance(1, 3)
			r.nbClose = func() { nbw.Close() }
			nbTask = zsim.Spawn("neighbour", func() {
				for k := 0; k < 4; k++ {
					msg := fmt.Sprintf("nb.%d|%s", k, strings.Repeat("n", k*150))
					r.nbWritten[msg] = true
					buf := []byte(msg)
					nbw.Write(buf)
					for i := range buf {
						buf[i] = '!'
					}
					zsim.Yield("neighbour gap")
				}
			})
		}
		// the neighbour is finished and closed before the final Settle of every
		// scenario, so that "settled" really is the last state of the run
		finishNeighbour := func() {
			if r.neighbour && !zsim.Dying() {
				zsim.Join(nbTask)
				nbw.Close()
			}
		}
		fatalProd := -1
		if r.scenario == scFatal {
			fatalProd = ch.Intn(r.nProd)
		}
		for p := 0; p < r.nProd; p++ {
			t := zsim.Spawn(fmt.Sprintf("prod%d", p), r.producer(p, lg, p == fatalProd))
			r.prodTasks = append(r.prodTasks, t)
		}
		switch r.scenario {
		case scStallForever:
			zsim.Join(r.prodTasks...)
			zsim.Sleep(3*r.interval + time.Millisecond)
			finishNeighbour()
			zsim.Settle()
			r.settled = true
			return
		case scCloseConcurrent:
			zsim.Sleep(time.Duration(ch.Intn(4)) * 300 * time.Microsecond)
			for i := ch.Intn(20); i > 0; i-- {
				zsim.Yield("closer delay")
			}
			r.closeAsked = true
			r.tap.Close()
			zsim.Join(r.prodTasks...)
			finishNeighbour()
			zsim.Settle()
			r.settled = true
			return
		case scFatal:
			zsim.Join(r.prodTasks...)
			// not reached when the fatal producer exits the process
			return
		}
		zsim.Join(r.prodTasks...)
		// phase B: no further Write, no Close; everything written must reach the
		// sink (or be reported) within a bounded simulated time
		idle := 3*r.interval + time.Millisecond
		switch r.sinkKind {
		case 1:
			idle += time.Duration(len(r.msgs)+4) * r.sinkDelay
		case 2:
			idle += r.stallFor
		}
		if r.skipIdle {
			idle = 0
		} else {
			zsim.Sleep(idle)
		}
		r.phaseBDone = true
		if r.on("C12") && !r.skipIdle {
			if n, ids := r.missing(); n > r.alertSum {
				zsim.Fail("C12.not_prompt", "%d written message(s) %v neither delivered nor reported (alerts=%d) after %v idle with no later Write or Close; tasks: %s", n, ids, r.alertSum, idle, s.Describe())
			}
		}
		if r.on("C12") && !r.skipIdle && r.quietK > 0 && r.interval > 0 && r.sinkKind == 0 {
			// a long quiet period, then a single message: counters of idle rounds tend to have
			// their thresholds at round numbers, so the wait ends half an interval before or
			// after such a number of polls since the last delivery
			zsim.Probe("write_after_long_quiet_period")
			target := r.lastDelivNow + int64(r.quietK)*int64(r.interval) - int64(r.interval)/2
			if now := s.Now(); target > now {
				zsim.Sleep(time.Duration(target - now))
			}
			m := r.newMsg(98, 0)
			r.directWrite(m, 3)
			zsim.Sleep(3*r.interval + time.Millisecond)
			if n, ids := r.missing(); n > r.alertSum {
				zsim.Fail("C12.not_prompt", "%d written message(s) %v neither delivered nor reported (alerts=%d) %v after a Write that followed about %d idle poll intervals; tasks: %s", n, ids, r.alertSum, 3*r.interval+time.Millisecond, r.quietK, s.Describe())
			}
		}
		var closer2 *zsim.Task
		if r.twoClosers {
			// two goroutines close at the same time (a shutdown path and, say, a Fatal):
			// whichever Close returns, everything written must have been delivered or reported
			zsim.Probe("two_closers")
			closer2 = zsim.Spawn("closer2", func() {
				if t := r.t(); r.firstCloseInv == 0 {
					r.firstCloseInv = t
				}
				r.dw.Close()
				if !zsim.Dying() {
					r.closeRets = append(r.closeRets, r.t())
					zsim.Log("second closer's Close returned")
				}
			})
		}
		r.closeAsked = true
		r.tap.Close()
		if closer2 != nil {
			zsim.Join(closer2)
		}
		if r.closeTwice {
			r.close2Inv = r.t()
			r.dw.Close()
			r.close2Ret = r.t()
		}
		finishNeighbour()
		zsim.Settle()
		r.settled = true
	}
	s = zsim.Run(zsim.Config{MaxSteps: 150000, Trace: trace}, ch, main)
	return finish(s, ch, r.summary(), func() *zsim.Violation { return r.post(s) })
}

// post is the history oracle, evaluated after the run.
func (r *dRun) post(s *zsim.Sim) *zsim.Violation {
	if s.Truncated {
		// the step / simulated-time cap was hit. Hitting a cap is inconclusive in general
		// (a step-hungry but correct implementation, or a task starved by an unfair
		// schedule, must not be blamed: a spin lock between producers whose holder the
		// schedule happens not to run is correct code), except for two sound signatures: the
		// calling task took thousands of steps inside one Write *while no other task could
		// run* (what it spins for can only come from a blocked or sleeping party: the consumer
		// inside the wrapped writer), or tens of simulated seconds passed with the call in flight (the clock only advances when
		// nothing is runnable, so the caller was asleep or blocked all that time, in a world
		// whose longest legitimate delay is about one second).
		const simBudget = int64(30 * time.Second)
		if r.on("C10") {
			for _, m := range r.msgs {
				if m.inv >= 0 && m.ret < 0 && (m.task.Solo-m.invOwn > 3000 || s.Now()-m.invNow > simBudget) {
					return viol("C10.write_blocked", "Write(%s) has not returned after %d steps that its goroutine took while no other goroutine could run, and %v of simulated time (busy-waiting or sleeping for the consumer?); scenario %s", m.id, m.task.Solo-m.invOwn, time.Duration(s.Now()-m.invNow), scNames[r.scenario])
				}
			}
		}
		if r.on("C12") && r.closeInv > 0 && r.closeRet == 0 && !s.Exited && s.Now()-r.closeNow > simBudget {
			return viol("C12.close_blocked", "Close has not returned %v of simulated time after it was called (run capped at %d steps); tasks: %s", time.Duration(s.Now()-r.closeNow), s.StepNo(), s.EndInfo)
		}
		return nil
	}
	if r.on("C10") {
		// (a) every Write returns, whatever the wrapped writer does
		for _, m := range r.msgs {
			if m.inv >= 0 && m.ret < 0 && !s.Exited && (s.Stuck || r.settled) {
				return viol("C10.write_blocked", "Write(%s) never returned (scenario %s); tasks: %s", m.id, scNames[r.scenario], s.EndInfo)
			}
		}
		if s.Stuck && !s.Exited {
			for i, t := range r.prodTasks {
				if !t.Done() {
					return viol("C10.write_blocked", "producer %d cannot finish; tasks: %s", i, s.StuckInfo)
				}
			}
		}
		// (f) alert counts never exceed the ring positions claimed
		if r.alertSum+len(r.deliveries) > r.started+r.collisions {
			return viol("C10.alert_bound", "alerts(%d)+delivered(%d) > writes(%d)+retries(%d)", r.alertSum, len(r.deliveries), r.started, r.collisions)
		}
	}
	if r.on("C12") {
		if r.closeInv > 0 && r.closeRet == 0 && s.Stuck && !s.Exited {
			return viol("C12.close_blocked", "Close never returns; tasks: %s", s.StuckInfo)
		}
		if r.close2Inv > 0 && r.close2Ret == 0 && s.Stuck && !s.Exited {
			return viol("C12.close_blocked", "a second Close never returns; tasks: %s", s.StuckInfo)
		}
		if r.scenario == scNormal && s.Stuck && !r.phaseBDone {
			return nil // producers blocked: C10's business
		}
	}
	if r.on("C11") {
		allReturned := true
		for _, m := range r.msgs {
			if m.inv >= 0 && m.ret < 0 && m != r.fatalMsg {
				allReturned = false
			}
		}
		switch r.scenario {
		case scNormal:
			producersReturned := true
			for _, m := range r.msgs {
				if m.prod != 100 && m.inv >= 0 && m.ret < 0 {
					producersReturned = false
				}
			}
			if r.closeInv > 0 && r.closeRet == 0 && s.Stuck && producersReturned {
				// Close is blocked for good: whatever is still in the ring will never be delivered
				if n, ids := r.missing(); n > r.alertSum {
					return viol("C11.silent_loss", "Close is blocked forever while %d written message(s) %v are neither delivered nor reported (alerts=%d); tasks: %s", n, ids, r.alertSum, s.StuckInfo)
				}
				return viol("C11.close_blocked", "Close, called after every Write had returned, is blocked forever: it neither drains nor returns; tasks: %s", s.StuckInfo)
			}
			if r.closeRet == 0 || !allReturned {
				return nil
			}
			for _, m := range r.msgs {
				if m.inv >= 0 && m.inv < r.firstCloseInv && m.ret > r.firstCloseInv {
					// a Write (of the re-entrant alerter) was in progress when Close was called:
					// not a history the statement covers
					zsimProbePost(s, "close_premise_false")
					return nil
				}
			}
			for _, T := range r.closeRets {
				if r.lossBlind() {
					break
				}
				miss, al := 0, 0
				var mids []string
				for _, m := range r.msgs {
					if r.owed(m) && (m.delivered == 0 || m.delivTick > T) {
						miss++
						mids = append(mids, m.id)
					}
				}
				for _, a := range r.alertAt {
					if a[0] <= T {
						al += a[1]
					}
				}
				if miss > al {
					return viol("C11.silent_loss", "a Close call returned (tick %d) while %d written message(s) %v were neither delivered nor reported yet (alerts so far %d); Close calls returned at ticks %v", T, miss, mids, al, r.closeRets)
				}
			}
			n, ids := r.missing()
			if n > r.alertSum {
				return viol("C11.silent_loss", "after Close: %d message(s) %v neither delivered nor covered by alerts (sum %d); written=%d delivered=%d retries=%d", n, ids, r.alertSum, r.written(), len(r.deliveries), r.collisions)
			}
			inTime := 0
			for _, m := range r.msgs {
				if r.owed(m) && r.deliveredInTime(m) {
					inTime++
				}
			}
			// (with Writes made after Close was called the alerts may also cover those: no
			// exact count then)
			if r.collisions == 0 && r.lateWrites() == 0 && !r.lossBlind() && inTime+r.alertSum != r.written() {
				return viol("C11.count_mismatch", "no retry happened but delivered before Close returned(%d)+reported(%d) != written(%d)", inTime, r.alertSum, r.written())
			}
			if r.maxOut <= r.ring && (r.alertSum != 0 || n != 0) {
				return viol("C11.drop_below_capacity", "never more than %d outstanding with ring %d, yet alerts=%d missing=%v", r.maxOut, r.ring, r.alertSum, ids)
			}
		case scFatal:
			if !s.Exited || r.fatalMsg == nil {
				return nil
			}
			// premise: no other Write overlaps the Close..Exit window (when the writer
			// was not closed at all, every Write must have returned before the exit)
			cut := r.closeInv
			if cut == 0 {
				cut = r.tick + 1
			}
			for _, m := range r.msgs {
				if m == r.fatalMsg || m.inv < 0 {
					continue
				}
				if m.ret < 0 || m.ret > cut {
					zsimProbePost(s, "fatal_premise_false")
					return nil
				}
			}
			miss := 0
			var ids []string
			for _, m := range r.msgs {
				if m.inv >= 0 && m.delivered == 0 {
					miss++
					ids = append(ids, m.id)
				}
			}
			if miss > r.alertSum && !r.lossBlind() {
				return viol("C11.fatal_loss", "process exited through Fatal (event filtered: %v, writer closed: %v) with %d message(s) %v neither delivered nor reported (alerts=%d)", r.fatalFilt == 1 || r.fatalFilt == 2, r.closeInv != 0, miss, ids, r.alertSum)
			}
		}
	}
	return nil
}

func zsimProbePost(s *zsim.Sim, name string) { s.Probes[name]++ }

var _ io.Closer = (*dTap)(nil)
