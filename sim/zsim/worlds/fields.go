package worlds

import (
	"errors"
	"fmt"
	"strings"
	"time"

	"github.com/rs/zerolog"
	"github.com/rs/zerolog/zsim"
)

// Field operations shared by the logger worlds: a spec is drawn from Choices
// once and can then be applied to an Event, a Context or (partly) an Array any
// number of times, so that the same call chain can be run alone (reference) and
// under concurrency.

const (
	fStr = iota
	fInt
	fBool
	fFloat
	fStrs
	fInts
	fBytes
	fHex
	fErr
	fDur
	fTime
	fIface
	fDict
	fArr
	fObj
	fEmbed
	fFieldsMap
	fRaw
	fFunc
	fTimestamp
	fAnErr
	fUint64
	nFop
)

type fop struct {
	Kind int
	Key  string
	S    string
	N    int
	Sub  []fop
}

func (o fop) String() string {
	names := []string{"Str", "Int", "Bool", "Float64", "Strs", "Ints", "Bytes", "Hex", "Err", "Dur", "Time", "Interface", "Dict", "Array", "Object", "EmbedObject", "Fields", "RawJSON", "Func", "Timestamp", "AnErr", "Uint64"}
	s := names[o.Kind] + "(" + o.Key
	if len(o.S) > 0 {
		s += fmt.Sprintf(",len=%d", len(o.S))
	}
	if len(o.Sub) > 0 {
		s += fmt.Sprintf(",sub=%d", len(o.Sub))
	}
	return s + ")"
}

func opsString(ops []fop) string {
	var p []string
	for _, o := range ops {
		p = append(p, o.String())
	}
	return strings.Join(p, ".")
}

func genString(c *zsim.Choices, tag string) string {
	n := 0
	switch c.Weighted(30, 4, 1) {
	case 0:
		n = c.Intn(16)
	case 1:
		n = 300 + c.Intn(500)
	case 2:
		n = 66000
	}
	var b strings.Builder
	b.WriteString(tag)
	for i := 0; b.Len() < n; i++ {
		b.WriteByte(byte('a' + (i+len(tag))%26))
	}
	return b.String()
}

// genOps draws n field operations; keys are prefix+index so they are unique.
func genOps(c *zsim.Choices, n, depth int, prefix string) []fop {
	var ops []fop
	for i := 0; i < n; i++ {
		k := c.Intn(nFop)
		if depth >= 2 && (k == fDict || k == fArr || k == fObj || k == fEmbed || k == fFunc) {
			k = fStr
		}
		o := fop{Kind: k, Key: fmt.Sprintf("%s%d", prefix, i)}
		switch k {
		case fStr, fBytes, fHex, fErr, fAnErr, fRaw:
			o.S = genString(c, o.Key+"=")
		case fInt, fDur, fTime, fFloat, fUint64:
			o.N = c.Intn(100000)
		case fBool:
			o.N = c.Intn(2)
		case fStrs, fInts:
			o.N = c.Intn(5)
		case fIface, fFieldsMap:
			o.N = 1 + c.Intn(3)
		case fDict, fArr, fObj, fEmbed, fFunc:
			o.Sub = genOps(c, c.Intn(4), depth+1, o.Key+"_")
		}
		if k == fHex && len(o.S) > 2000 {
			o.S = o.S[:2000]
		}
		ops = append(ops, o)
	}
	return ops
}

var refTime = time.Unix(1_600_000_000, 0).UTC()

type objM struct{ ops []fop }

func (m objM) MarshalZerologObject(e *zerolog.Event) {
	zsim.Yield("MarshalZerologObject")
	applyEvent(e, m.ops)
}

func strsN(n int, tag string) []string {
	out := make([]string, n)
	for i := range out {
		out[i] = fmt.Sprintf("%s.%d", tag, i)
	}
	return out
}

func intsN(n int) []int {
	out := make([]int, n)
	for i := range out {
		out[i] = i * 7
	}
	return out
}

func ifaceVal(o fop) interface{} {
	m := map[string]interface{}{}
	for i := 0; i < o.N; i++ {
		m[fmt.Sprintf("k%d", i)] = i
	}
	return m
}

func fieldsVal(o fop) map[string]interface{} {
	m := map[string]interface{}{}
	for i := 0; i < o.N; i++ {
		switch i % 3 {
		case 0:
			m[fmt.Sprintf("%s_f%d", o.Key, i)] = "v" + o.Key
		case 1:
			m[fmt.Sprintf("%s_f%d", o.Key, i)] = i * 11
		case 2:
			m[fmt.Sprintf("%s_f%d", o.Key, i)] = true
		}
	}
	return m
}

func rawJSON(o fop) []byte {
	return []byte(fmt.Sprintf(`{"raw":%q}`, o.S))
}

func applyArray(a *zerolog.Array, ops []fop) *zerolog.Array {
	for _, o := range ops {
		switch o.Kind {
		case fStr, fErr, fAnErr, fRaw:
			a.Str(o.S)
		case fInt, fUint64:
			a.Int(o.N)
		case fBool:
			a.Bool(o.N == 1)
		case fFloat:
			a.Float64(float64(o.N) / 8)
		case fBytes:
			a.Bytes([]byte(o.S))
		case fHex:
			a.Hex([]byte(o.S))
		case fDur:
			a.Dur(time.Duration(o.N) * time.Millisecond)
		case fTime:
			a.Time(refTime.Add(time.Duration(o.N) * time.Second))
		case fObj, fEmbed, fFunc:
			a.Object(objM{o.Sub})
		case fDict:
			a.Dict(applyEvent(zerolog.Dict(), o.Sub))
		default:
			a.Str(o.Key)
		}
	}
	return a
}

// applyEvent applies ops to e (a nil event is fine: every call is a no-op).
func applyEvent(e *zerolog.Event, ops []fop) *zerolog.Event {
	for _, o := range ops {
		switch o.Kind {
		case fStr:
			e = e.Str(o.Key, o.S)
		case fInt:
			e = e.Int(o.Key, o.N)
		case fUint64:
			e = e.Uint64(o.Key, uint64(o.N)<<40)
		case fBool:
			e = e.Bool(o.Key, o.N == 1)
		case fFloat:
			e = e.Float64(o.Key, float64(o.N)/8)
		case fStrs:
			e = e.Strs(o.Key, strsN(o.N, o.Key))
		case fInts:
			e = e.Ints(o.Key, intsN(o.N))
		case fBytes:
			e = e.Bytes(o.Key, []byte(o.S))
		case fHex:
			e = e.Hex(o.Key, []byte(o.S))
		case fErr:
			e = e.Err(errors.New(o.S))
		case fAnErr:
			e = e.AnErr(o.Key, errors.New(o.S))
		case fDur:
			e = e.Dur(o.Key, time.Duration(o.N)*time.Millisecond)
		case fTime:
			e = e.Time(o.Key, refTime.Add(time.Duration(o.N)*time.Second))
		case fIface:
			e = e.Interface(o.Key, ifaceVal(o))
		case fDict:
			e = e.Dict(o.Key, applyEvent(zerolog.Dict(), o.Sub))
		case fArr:
			e = e.Array(o.Key, applyArray(zerolog.Arr(), o.Sub))
		case fObj:
			e = e.Object(o.Key, objM{o.Sub})
		case fEmbed:
			e = e.EmbedObject(objM{o.Sub})
		case fFieldsMap:
			e = e.Fields(fieldsVal(o))
		case fRaw:
			e = e.RawJSON(o.Key, rawJSON(o))
		case fFunc:
			sub := o.Sub
			e = e.Func(func(e *zerolog.Event) { zsim.Yield("Func"); applyEvent(e, sub) })
		case fTimestamp:
			e = e.Timestamp()
		}
	}
	return e
}

// applyCtx applies ops to a logger context.
func applyCtx(c zerolog.Context, ops []fop) zerolog.Context {
	for _, o := range ops {
		switch o.Kind {
		case fStr:
			c = c.Str(o.Key, o.S)
		case fInt:
			c = c.Int(o.Key, o.N)
		case fUint64:
			c = c.Uint64(o.Key, uint64(o.N)<<40)
		case fBool:
			c = c.Bool(o.Key, o.N == 1)
		case fFloat:
			c = c.Float64(o.Key, float64(o.N)/8)
		case fStrs:
			c = c.Strs(o.Key, strsN(o.N, o.Key))
		case fInts:
			c = c.Ints(o.Key, intsN(o.N))
		case fBytes:
			c = c.Bytes(o.Key, []byte(o.S))
		case fHex:
			c = c.Hex(o.Key, []byte(o.S))
		case fErr:
			c = c.Err(errors.New(o.S))
		case fAnErr:
			c = c.AnErr(o.Key, errors.New(o.S))
		case fDur:
			c = c.Dur(o.Key, time.Duration(o.N)*time.Millisecond)
		case fTime:
			c = c.Time(o.Key, refTime.Add(time.Duration(o.N)*time.Second))
		case fIface:
			c = c.Interface(o.Key, ifaceVal(o))
		case fDict:
			c = c.Dict(o.Key, applyEvent(zerolog.Dict(), o.Sub))
		case fArr:
			c = c.Array(o.Key, applyArray(zerolog.Arr(), o.Sub))
		case fObj:
			c = c.Object(o.Key, objM{o.Sub})
		case fEmbed:
			c = c.EmbedObject(objM{o.Sub})
		case fFieldsMap:
			c = c.Fields(fieldsVal(o))
		case fRaw:
			c = c.RawJSON(o.Key, rawJSON(o))
		default:
			c = c.Str(o.Key, "x")
		}
	}
	return c
}
