package worlds

import (
	"context"
	"fmt"
	"time"

	"github.com/rs/zerolog/zsim"
)

// chanself is a self-test of the simulator's channel, select and timer
// emulation (zsim/chan.go) against the semantics of the Go specification. It
// drives the same entry points that zinstr generates calls to. A violation here
// is a defect of the machinery, never of zerolog; `vcheck selftest channels`
// runs it and exits 2 on any.
type chanSelfWorld struct{}

func init() { register("chanself", chanSelfWorld{}) }

func (chanSelfWorld) Props() []string { return nil }

func (chanSelfWorld) Components() (real, stub []string) {
	return []string{"zsim.Select/Send/Recv/Close, timers, context timers"}, nil
}

func (chanSelfWorld) Run(prop string, ch *zsim.Choices, trace bool) *RunResult {
	summary := ""
	wantStuck := false
	main := func() {
		s := zsim.S
		k := ch.Intn(10)
		summary = fmt.Sprintf("scenario=%d", k)
		fail := func(format string, a ...interface{}) { zsim.Fail("selftest.channels", format, a...) }
		switch k {
		case 0:
			// unbuffered: values arrive in order, a send completes only with its receive
			c := make(chan int)
			n := 1 + ch.Intn(6)
			sent, got := 0, 0
			t := zsim.Spawn("sender", func() {
				for i := 0; i < n; i++ {
					zsim.Send(c, i)
					sent++
					if sent > got+1 {
						fail("send %d completed although only %d values were received", sent, got)
					}
				}
				zsim.Close(c)
			})
			for {
				v, ok := zsim.Recv2(c)
				if !ok {
					break
				}
				if v != got {
					fail("received %d, expected %d", v, got)
				}
				got++
			}
			zsim.Join(t)
			if got != n {
				fail("received %d of %d", got, n)
			}
		case 1:
			// buffered: capacity respected, FIFO, close drains
			cp := 1 + ch.Intn(3)
			c := make(chan int, cp)
			n := 2 + ch.Intn(6)
			t := zsim.Spawn("sender", func() {
				for i := 0; i < n; i++ {
					zsim.Send(c, i)
					if len(c) > cp {
						fail("buffer over capacity")
					}
				}
				zsim.Close(c)
			})
			want := 0
			for {
				v, ok := zsim.Recv2(c)
				if !ok {
					break
				}
				if v != want {
					fail("received %d, expected %d", v, want)
				}
				want++
			}
			zsim.Join(t)
			if want != n {
				fail("received %d of %d", want, n)
			}
		case 2:
			// select with two ready cases: either may be taken, and exactly one is
			a, b := make(chan int, 1), make(chan int, 1)
			a <- 1
			b <- 2
			k, x, ok := zsim.Select(false, zsim.RecvCase(a), zsim.RecvCase(b))
			if !ok || (k == 0 && x.(int) != 1) || (k == 1 && x.(int) != 2) || len(a)+len(b) != 1 {
				fail("select took case %d value %v ok=%v, buffers now %d+%d", k, x, ok, len(a), len(b))
			}
			zsim.Probe(fmt.Sprintf("select_took_%d", k))
		case 3:
			// close wakes every receiver; a nil channel case is never ready; default
			c := make(chan struct{})
			var nilc chan int
			woke := 0
			var ts []*zsim.Task
			for i := 0; i < 1+ch.Intn(3); i++ {
				ts = append(ts, zsim.Spawn("waiter", func() {
					k, _, ok := zsim.Select(false, zsim.RecvCase(nilc), zsim.RecvCase(c))
					if k != 1 || ok {
						fail("waiter woke with case %d ok=%v", k, ok)
					}
					woke++
				}))
			}
			if k, _, _ := zsim.Select(true, zsim.RecvCase(nilc), zsim.SendCase(nilc, 1)); k != -1 {
				fail("nil channel case was taken")
			}
			zsim.Yield("before close")
			zsim.Close(c)
			zsim.Join(ts...)
			if woke != len(ts) {
				fail("%d of %d waiters woke", woke, len(ts))
			}
		case 4:
			// a send on a closed channel panics; a receive from it yields the zero value
			c := make(chan int, ch.Intn(2))
			zsim.Close(c)
			if v, ok := zsim.Recv2(c); v != 0 || ok {
				fail("receive from closed channel gave %d, %v", v, ok)
			}
			func() {
				defer func() {
					if recover() == nil {
						fail("send on closed channel did not panic")
					}
				}()
				zsim.Send(c, 1)
			}()
		case 5:
			// timers on the simulated clock: fire at their time, Stop prevents, Reset moves
			d := time.Duration(1+ch.Intn(5)) * time.Millisecond
			t0 := zsim.Now()
			tm := zsim.NewTimer(d)
			stopped := zsim.NewTimer(d / 2)
			if !stopped.Stop() {
				fail("Stop of a pending timer returned false")
			}
			fired := false
			af := zsim.AfterFunc(2*d, func() { fired = true })
			zsim.Recv(tm.C)
			if e := zsim.Since(t0); e != d {
				fail("timer of %v fired after %v", d, e)
			}
			if k, _, _ := zsim.Select(true, zsim.RecvCase(stopped.C)); k != -1 {
				fail("a stopped timer fired")
			}
			zsim.Sleep(2 * d)
			zsim.Yield("let the AfterFunc task run")
			zsim.Settle()
			if !fired {
				fail("AfterFunc did not run")
			}
			if af.Stop() {
				fail("Stop after firing returned true")
			}
			tk := zsim.NewTicker(d)
			zsim.Recv(tk.C)
			zsim.Recv(tk.C)
			tk.Stop()
			if e := zsim.Since(t0); e < 5*d {
				fail("two ticks of %v after %v total", d, e)
			}
		case 6:
			// context timers
			d := time.Duration(1+ch.Intn(5)) * time.Millisecond
			ctx, cancel := zsim.WithTimeout(context.Background(), d)
			ran := false
			stop := zsim.CtxAfterFunc(ctx, func() { ran = true })
			t0 := zsim.Now()
			zsim.Recv(ctx.Done())
			if e := zsim.Since(t0); e != d || ctx.Err() != context.DeadlineExceeded {
				fail("WithTimeout(%v): done after %v with %v", d, e, ctx.Err())
			}
			zsim.Settle()
			if !ran || stop() {
				fail("context.AfterFunc: ran=%v", ran)
			}
			cancel()
			ctx2, cancel2 := zsim.WithTimeout(context.Background(), time.Hour)
			cancel2()
			zsim.Recv(ctx2.Done())
			if ctx2.Err() != context.Canceled {
				fail("cancelled context reports %v", ctx2.Err())
			}
		case 7:
			// a rendezvous that never happens is a stuck state, not a hang
			wantStuck = true
			c := make(chan int)
			zsim.Spawn("lonely sender", func() { zsim.Send(c, 1) })
			d := make(chan int)
			zsim.Recv(d)
		case 9:
			// a sender parked on a channel (unbuffered, or full) that somebody closes: it panics
			c := make(chan int, ch.Intn(2))
			if cap(c) == 1 {
				c <- 0
			}
			panicked := false
			t := zsim.Spawn("parked sender", func() {
				defer func() {
					if recover() != nil {
						panicked = true
					}
				}()
				zsim.Send(c, 1)
			})
			zsim.Settle()
			zsim.Close(c)
			zsim.Join(t)
			if !panicked {
				fail("a sender parked on a channel that was then closed did not panic")
			}
		case 8:
			// many-to-one over an unbuffered channel with a select on a second one
			c, quit := make(chan int), make(chan struct{})
			np, per := 1+ch.Intn(3), 1+ch.Intn(3)
			var ts []*zsim.Task
			for p := 0; p < np; p++ {
				p := p
				ts = append(ts, zsim.Spawn("producer", func() {
					for i := 0; i < per; i++ {
						zsim.Send(c, p*10+i)
					}
				}))
			}
			seen := map[int]int{}
			last := map[int]int{}
			collector := zsim.Spawn("collector", func() {
				for {
					k, x, _ := zsim.Select(false, zsim.RecvCase(c), zsim.RecvCase(quit))
					if k == 1 {
						return
					}
					v := x.(int)
					seen[v]++
					if l, ok := last[v/10]; ok && l >= v {
						fail("producer %d: %d after %d", v/10, v, l)
					}
					last[v/10] = v
				}
			})
			zsim.Join(ts...)
			zsim.Close(quit)
			zsim.Join(collector)
			if len(seen) != np*per {
				fail("%d distinct values of %d", len(seen), np*per)
			}
			for v, n := range seen {
				if n != 1 {
					fail("value %d received %d times", v, n)
				}
			}
		}
		_ = s
	}
	s := zsim.Run(zsim.Config{MaxSteps: 20000, Trace: trace}, ch, main)
	return finish(s, ch, summary, func() *zsim.Violation {
		if s.Stuck != wantStuck {
			return viol("selftest.channels", "stuck=%v, expected %v; tasks: %s", s.Stuck, wantStuck, s.StuckInfo)
		}
		return nil
	})
}
