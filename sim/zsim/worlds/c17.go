package worlds

import (
	"bytes"
	"errors"
	"fmt"
	"io"
	"runtime"
	"strings"
	"time"

	"github.com/rs/zerolog"
	"github.com/rs/zerolog/internal/cbor"
	"github.com/rs/zerolog/zsim"
)

// C17: the CBOR decoder is total and truncation costs only the last event.
// The world must be built with -tags binary_log: real loggers write real binary
// events to a simulated append-only disk; the disk is then cut at crash points,
// its stored bytes are damaged, and its reader misbehaves.
type c17World struct{}

func init() { register("c17", c17World{}) }

func (c17World) Props() []string { return []string{"C17"} }

func (c17World) Components() (real, stub []string) {
	return []string{"binary (CBOR) encoder behind zerolog.Logger (-tags binary_log)", "cbor.Cbor2JsonManyObjects", "cbor.DecodeIfBinaryToBytes / DecodeIfBinaryToString / DecodeObjectToStr", "ConsoleWriter.Write on binary events"},
		[]string{"append-only disk (crash = cut inside the write in flight; stored-byte faults: bit flip, byte overwrite, zeroed range, dropped range, duplicated tail, garbage tail)", "reader over the disk (arbitrary chunking, (n>0, err) reads, mid-stream errors)", "allocation meter (runtime/metrics) and statement-count budget (termination bound)"}
}

type c17Disk struct {
	data   []byte
	bounds []int // end offset of every complete event
}

func (d *c17Disk) Write(p []byte) (int, error) {
	if zsim.Dying() {
		return len(p), nil
	}
	d.data = append(d.data, p...)
	d.bounds = append(d.bounds, len(d.data))
	zsim.Yield("disk.Write")
	return len(p), nil
}

// c17Reader reads a byte slice in drawn chunk sizes, optionally failing.
type c17Reader struct {
	b      []byte
	pos    int
	chunk  int
	failAt int // -1: never; otherwise return an error when pos reaches it
	withN  bool
	// errWithData: the error comes back in the same call as the last bytes before failAt
	// ((n>0, err), as io.Reader allows), not in the call after
	errWithData bool
}

func (r *c17Reader) Read(p []byte) (int, error) {
	if r.failAt >= 0 && r.pos >= r.failAt {
		return 0, errors.New("injected read error")
	}
	if r.pos >= len(r.b) {
		return 0, io.EOF
	}
	n := r.chunk
	if n <= 0 || n > len(p) {
		n = len(p)
	}
	if r.pos+n > len(r.b) {
		n = len(r.b) - r.pos
	}
	if r.failAt >= 0 && r.pos+n > r.failAt {
		n = r.failAt - r.pos
	}
	copy(p, r.b[r.pos:r.pos+n])
	r.pos += n
	if r.errWithData && r.failAt >= 0 && r.pos >= r.failAt && n > 0 {
		return n, errors.New("injected read error")
	}
	if r.withN && r.pos >= len(r.b) {
		return n, io.EOF // (n>0, EOF) in one call, as io.Reader allows
	}
	return n, nil
}

// heapAllocs returns the exact number of heap bytes allocated so far.
// runtime.ReadMemStats stops the world and flushes the per-P allocation caches;
// the cheaper runtime/metrics counter lags by up to a span per size class, which
// made an earlier version of this oracle flaky near its limit (false alarm, fixed).
func heapAllocs() uint64 {
	var ms runtime.MemStats
	runtime.ReadMemStats(&ms)
	return ms.TotalAlloc
}

type decodeResult struct {
	out      []byte
	err      error
	panicked interface{}
	alloc    uint64
	simOps   int // channel operations / task starts the simulator carried out meanwhile
}

// guarded runs f under the statement budget and the allocation meter and
// catches whatever escapes.
func guarded(inputLen int, measure bool, f func() ([]byte, error)) (res decodeResult) {
	zsim.SetBudget(int64(4000*(inputLen+64)) + 200000)
	var before uint64
	ops0, ov0 := zsim.S.SimOps, zsim.Overhead
	if measure {
		before = heapAllocs()
	}
	defer func() {
		zsim.SetBudget(0)
		if measure {
			res.alloc = heapAllocs() - before
			if ov := zsim.Overhead - ov0; ov < res.alloc {
				res.alloc -= ov // the simulator's own record and trace growing
			}
			res.simOps = zsim.S.SimOps - ops0
		}
		if p := recover(); p != nil {
			res.panicked = p
		}
	}()
	res.out, res.err = f()
	return
}

// c17FailDst refuses writes: all of them (0), every other one (1), or all from the
// third on (2).
type c17FailDst struct {
	w    io.Writer
	mode int
	n    int
}

func (d *c17FailDst) Write(p []byte) (int, error) {
	d.n++
	zsim.Yield("dst.Write")
	if d.mode == 0 || (d.mode == 1 && d.n%2 == 0) || (d.mode == 2 && d.n >= 3) {
		return 0, errors.New("destination refuses the write")
	}
	return d.w.Write(p)
}

func hexClip(b []byte, n int) string {
	if len(b) <= n {
		return fmt.Sprintf("%x", b)
	}
	return fmt.Sprintf("%x...(%d bytes)", b[:n], len(b))
}

func (c17World) Run(prop string, ch *zsim.Choices, trace bool) *RunResult {
	oldTS := zerolog.TimestampFunc
	defer func() { zerolog.TimestampFunc = oldTS }()
	summary := ""
	main := func() {
		s := zsim.S
		zerolog.SetGlobalLevel(zerolog.TraceLevel)
		zerolog.TimestampFunc = func() time.Time { return refTime }
		disk := &c17Disk{}
		lg := zerolog.New(disk).With().Str("svc", "bin").Logger()
		nTasks := 1 + ch.Weighted(3, 2, 1)
		var ts []*zsim.Task
		for t := 0; t < nTasks; t++ {
			n := 1 + ch.Intn(4)
			var specs [][]fop
			for i := 0; i < n; i++ {
				ops := genOps(ch, ch.Intn(6), 0, fmt.Sprintf("t%d_%d_", t, i))
				if ch.Chance(1, 4) {
					// lengths on both sides of the 23/24 and 255/256 prefix boundaries
					ops = append(ops, fop{Kind: fStr, Key: "len", S: strings.Repeat("s", []int{22, 23, 24, 254, 255, 256, 257, 1000}[ch.Intn(8)])})
				}
				specs = append(specs, ops)
			}
			ts = append(ts, zsim.Spawn(fmt.Sprintf("log%d", t), func() {
				for i, ops := range specs {
					applyEvent(lg.Info().Int("i", i), ops).Msg("binary event")
				}
			}))
		}
		zsim.Join(ts...)
		stream := disk.data
		if len(stream) == 0 || stream[0] <= 0x7f {
			zsim.Fail("harness", "the C17 world must be built with -tags binary_log (the logger did not produce CBOR)")
		}
		summary = fmt.Sprintf("tasks=%d events=%d stream=%dB", nTasks, len(disk.bounds), len(stream))
		zsim.Log("config: %s", summary)

		// reference: every complete event decoded on its own
		var lines [][]byte
		start := 0
		for _, end := range disk.bounds {
			ev := stream[start:end]
			r := guarded(len(ev), false, func() ([]byte, error) {
				var out bytes.Buffer
				err := cbor.Cbor2JsonManyObjects(bytes.NewReader(ev), &out)
				return out.Bytes(), err
			})
			// (byte strings are copied into the JSON unescaped by this decoder, so a decoded
			// event may contain raw newlines: events are compared as byte blocks, not as lines)
			if r.panicked != nil || r.err != nil || len(r.out) == 0 || r.out[len(r.out)-1] != '\n' {
				zsim.Fail("C17.valid_event", "a complete event written by the binary logger does not decode to one line: err=%v panic=%v out=%s event=%s", r.err, r.panicked, clip(r.out, 200), hexClip(ev, 200))
			}
			lines = append(lines, append([]byte{}, r.out...))
			start = end
		}

		// the other entry points must agree with Cbor2JsonManyObjects on valid input
		var consoleRef [][]byte
		start = 0
		for i, end := range disk.bounds {
			ev := stream[start:end]
			start = end
			if b := cbor.DecodeIfBinaryToBytes(ev); !bytes.Equal(b, lines[i]) {
				zsim.Fail("C17.entry_points", "DecodeIfBinaryToBytes of a valid event gives %s, Cbor2JsonManyObjects gives %s", clip(b, 200), clip(lines[i], 200))
			}
			if str := cbor.DecodeIfBinaryToString(ev); str != string(lines[i]) {
				zsim.Fail("C17.entry_points", "DecodeIfBinaryToString of a valid event gives %s, Cbor2JsonManyObjects gives %s", clipS(str, 200), clip(lines[i], 200))
			}
			var out bytes.Buffer
			n, err := zerolog.ConsoleWriter{Out: &out, NoColor: true}.Write(ev)
			// ConsoleWriter may legitimately report an error for a valid binary event: the
			// decoder's JSON is not always valid JSON for byte strings with quotes, control
			// or non-UTF-8 bytes (that is C08's subject, not this property's). What must hold
			// here: no panic, and success means the line was rendered. (n is the length of
			// the decoded JSON in the binary build, not len(ev); not checked either.)
			if err == nil && (n <= 0 || !bytes.Contains(out.Bytes(), []byte("binary event"))) {
				zsim.Fail("C17.entry_points", "ConsoleWriter.Write of a valid binary event returned (%d, nil) but wrote %s", n, clip(out.Bytes(), 200))
			}
			consoleRef = append(consoleRef, append([]byte{}, out.Bytes()...))
		}
		var all []byte
		for _, l := range lines {
			all = append(all, l...)
		}
		if b := cbor.DecodeIfBinaryToBytes(stream); !bytes.Equal(b, all) {
			zsim.Fail("C17.entry_points", "DecodeIfBinaryToBytes of the whole valid stream differs from the concatenation of its events' lines")
		}
		// the same entry points used by several goroutines at once (pooled buffers inside)
		if ch.Chance(1, 2) && len(disk.bounds) > 0 && len(stream) < 8192 {
			s.ArmDraw([]string{"internal/cbor/", "console.go", "encoder_cbor.go"})
			var cts []*zsim.Task
			for t := 0; t < 2+ch.Intn(2); t++ {
				t := t
				cts = append(cts, zsim.Spawn(fmt.Sprintf("dec%d", t), func() {
					st := 0
					for i, end := range disk.bounds {
						ev := stream[st:end]
						st = end
						if (i+t)%2 == 0 {
							b := cbor.DecodeIfBinaryToBytes(ev)
							zsim.Yield("between decode and use")
							if !bytes.Equal(b, lines[i]) {
								zsim.Fail("C17.entry_points", "DecodeIfBinaryToBytes used by several goroutines: the result for event %d changed or is wrong: %s, alone %s", i, clip(b, 160), clip(lines[i], 160))
							}
						} else {
							var out bytes.Buffer
							_, err := zerolog.ConsoleWriter{Out: &out, NoColor: true}.Write(ev)
							if (err != nil) != (len(consoleRef[i]) == 0) || !bytes.Equal(out.Bytes(), consoleRef[i]) {
								zsim.Fail("C17.entry_points", "ConsoleWriter used by several goroutines: event %d gave (%v) %s, alone %s", i, err, clip(out.Bytes(), 160), clip(consoleRef[i], 160))
							}
						}
					}
				}))
			}
			zsim.Probe("concurrent_decoders")
			zsim.Join(cts...)
			s.Disarm()
		}

		// (a) crash points
		offsets := map[int]bool{}
		if len(stream) <= 1200 {
			for k := 0; k <= len(stream); k++ {
				offsets[k] = true
			}
		} else {
			step := len(stream)/300 + 1 + ch.Intn(7)
			for k := ch.Intn(step); k <= len(stream); k += step {
				offsets[k] = true
			}
			for _, b := range disk.bounds {
				for d := -12; d <= 12; d++ {
					if b+d >= 0 && b+d <= len(stream) {
						offsets[b+d] = true
					}
				}
			}
		}
		chunk := []int{0, 1, 2, 3, 7, 64, 4096}[ch.Intn(7)]
		withN := ch.Chance(1, 2)
		for k := 0; k <= len(stream); k++ {
			if !offsets[k] {
				continue
			}
			zsim.Fault("crash_point")
			prefix := stream[:k]
			whole := 0
			for _, b := range disk.bounds {
				if b <= k {
					whole++
				}
			}
			partial := k > 0 && (whole == 0 || disk.bounds[whole-1] != k)
			if k == 0 {
				partial = false
			}
			r := guarded(len(prefix), k%16 == 0, func() ([]byte, error) {
				var out bytes.Buffer
				err := cbor.Cbor2JsonManyObjects(&c17Reader{b: prefix, chunk: chunk, failAt: -1, withN: withN}, &out)
				return out.Bytes(), err
			})
			if v := totalityViolation(r, prefix, "crash at offset "+fmt.Sprint(k)); v != nil {
				zsim.Fail(v.Clause, "%s", v.Msg)
			}
			if partial && whole == 0 {
				// a torn event handed to ConsoleWriter (it decodes the binary form first): it is
				// reported as an error, not printed as if it were a whole event
				rc := guarded(len(prefix), false, func() ([]byte, error) {
					var out bytes.Buffer
					_, err := zerolog.ConsoleWriter{Out: &out, NoColor: true}.Write(prefix)
					return out.Bytes(), err
				})
				if v := totalityViolation(rc, prefix, "torn event through ConsoleWriter, cut at "+fmt.Sprint(k)); v != nil {
					zsim.Fail(v.Clause, "%s", v.Msg)
				}
				if rc.err == nil && rc.panicked == nil {
					zsim.Fail("C17.partial_not_reported", "an event of %d bytes cut at offset %d and handed to ConsoleWriter.Write was rendered as %s with a nil error", disk.bounds[0], k, clip(rc.out, 200))
				}
			}
			var want []byte
			for i := 0; i < whole; i++ {
				want = append(want, lines[i]...)
			}
			if whole >= 1 && k%5 == 0 {
				// the same cut made by the medium instead of the file length: the whole stream is
				// there but the reader fails at offset k, with the error in the call after the
				// last good bytes or in the same call. What was delivered before the error is a
				// prefix like any other.
				zsim.Fault("read_error_at_cut")
				sameCall := ch.Chance(1, 2)
				re := guarded(len(stream), false, func() ([]byte, error) {
					var out bytes.Buffer
					err := cbor.Cbor2JsonManyObjects(&c17Reader{b: stream, chunk: chunk, failAt: k, errWithData: sameCall}, &out)
					return out.Bytes(), err
				})
				var wantR []byte
				for i := 0; i < whole; i++ {
					wantR = append(wantR, lines[i]...)
				}
				if v := totalityViolation(re, prefix, "reader failing at offset "+fmt.Sprint(k)); v != nil {
					zsim.Fail(v.Clause, "%s", v.Msg)
				}
				if !bytes.HasPrefix(re.out, wantR) {
					zsim.Fail("C17.prefix", "stream of %d bytes whose reader fails at offset %d (error returned together with the last bytes: %v; %d whole events delivered before it): the output does not start with those events decoded (first difference at byte %d)\n got  %s\n want %s", len(stream), k, sameCall, whole, firstDiff(re.out, wantR), clip(re.out, 300), clip(wantR, 300))
				}
			}
			if whole >= 1 && (!partial || k%3 == 0) {
				// the convenience entry points have no error result: what they return for a cut
				// stream still starts with (or, at a boundary, is) the decoded whole events
				for ep := 0; ep < 2; ep++ {
					ep := ep
					re := guarded(len(prefix), false, func() ([]byte, error) {
						if ep == 0 {
							return cbor.DecodeIfBinaryToBytes(prefix), nil
						}
						return []byte(cbor.DecodeIfBinaryToString(prefix)), nil
					})
					name := []string{"DecodeIfBinaryToBytes", "DecodeIfBinaryToString"}[ep]
					if v := totalityViolation(re, prefix, name+" of the stream cut at offset "+fmt.Sprint(k)); v != nil {
						zsim.Fail(v.Clause, "%s", v.Msg)
					}
					if (partial && !bytes.HasPrefix(re.out, want)) || (!partial && !bytes.Equal(re.out, want)) {
						zsim.Fail("C17.prefix", "%s of the stream cut at offset %d (%d whole events, partial one: %v): the result does not start with the decoded whole events (first difference at byte %d)\n got  %s\n want %s", name, k, whole, partial, firstDiff(re.out, want), clip(re.out, 300), clip(want, 300))
					}
				}
			}
			if partial {
				// whatever was emitted for the partial event after the complete ones is ignored,
				// but the complete events must be there, unchanged, and an error must be reported
				if !bytes.HasPrefix(r.out, want) {
					zsim.Fail("C17.prefix", "stream of %d bytes cut at offset %d (%d whole events + a partial one): the output does not start with the decoded whole events (first difference at byte %d)\n got  %s\n want %s", len(stream), k, whole, firstDiff(r.out, want), clip(r.out, 300), clip(want, 300))
				}
				if r.err == nil {
					zsim.Fail("C17.partial_not_reported", "stream cut at offset %d inside event %d: the partial trailing event was not reported as an error (output %s)", k, whole, clip(r.out, 200))
				}
			} else {
				if !bytes.Equal(r.out, want) {
					zsim.Fail("C17.prefix", "stream cut exactly after event %d (offset %d): output differs from the full stream's first %d lines\n got  %s\n want %s", whole, k, whole, clip(r.out, 300), clip(want, 300))
				}
				if r.err != nil {
					zsim.Fail("C17.prefix", "stream cut exactly after event %d (offset %d): decoder reported %v", whole, k, r.err)
				}
			}
		}

		// (a') single events whose value bytes were replaced by extremes of their type: the decoder
		// stays total on every bit pattern a tagged or untagged number can hold
		if ch.Chance(1, 2) {
			for m := 0; m < 6; m++ {
				buf, desc := specialEvent(ch)
				zsim.Fault("special_value")
				for ep := 0; ep < 2; ep++ {
					ep := ep
					r := guarded(len(buf), true, func() ([]byte, error) {
						if ep == 1 {
							return cbor.DecodeIfBinaryToBytes(buf), nil
						}
						var out bytes.Buffer
						err := cbor.Cbor2JsonManyObjects(&c17Reader{b: buf, chunk: 0, failAt: -1}, &out)
						return out.Bytes(), err
					})
					if v := totalityViolation(r, buf, desc+fmt.Sprintf(" via entry point %d", ep)); v != nil {
						zsim.Fail(v.Clause, "%s", v.Msg)
					}
				}
			}
		}

		// (a'') every one-byte tag number in front of one small payload: a tag handler (also one
		// added later) must not trust the type or the length of what follows its tag
		if ch.Chance(1, 4) {
			payload := tagPayloads[ch.Intn(len(tagPayloads))]
			zsim.Fault("tag_sweep")
			for t := 0; t < 256+24; t++ {
				tag := []byte{0xd8, byte(t)}
				if t >= 256 {
					tag = []byte{byte(0xc0 + t - 256)}
				}
				buf := append(append(append([]byte{0xbf, 0x61, 'k'}, tag...), payload...), 0xff)
				r := guarded(len(buf), t%16 == 0, func() ([]byte, error) {
					var out bytes.Buffer
					err := cbor.Cbor2JsonManyObjects(&c17Reader{b: buf, chunk: 0, failAt: -1}, &out)
					return out.Bytes(), err
				})
				if v := totalityViolation(r, buf, fmt.Sprintf("event {\"k\": tag %x payload %x}", tag, payload)); v != nil {
					zsim.Fail(v.Clause, "%s", v.Msg)
				}
			}
		}

		// (a3) a tagged byte string that holds a tagged byte string that holds ... with every
		// length correct: a decoder that looks inside embedded items (tag 24, the standard tag for
		// an encoded CBOR data item) must not pay for the whole remainder at every level
		if ch.Chance(1, 8) {
			tagNo := byte(24)
			if ch.Chance(1, 2) {
				tagNo = byte(ch.Intn(256))
			}
			depth := []int{50, 800, 6000}[ch.Intn(3)]
			inner := []byte{0x01}
			for d := 0; d < depth; d++ {
				var hdr []byte
				switch {
				case len(inner) < 24:
					hdr = []byte{0xd8, tagNo, 0x40 | byte(len(inner))}
				case len(inner) < 256:
					hdr = []byte{0xd8, tagNo, 0x58, byte(len(inner))}
				case len(inner) < 65536:
					hdr = []byte{0xd8, tagNo, 0x59, byte(len(inner) >> 8), byte(len(inner))}
				}
				if hdr == nil {
					break
				}
				inner = append(hdr, inner...)
			}
			buf := append(append([]byte{0xbf, 0x61, 'k'}, inner...), 0xff)
			zsim.Fault("nested_embedding")
			r := guarded(len(buf), true, func() ([]byte, error) {
				var out bytes.Buffer
				err := cbor.Cbor2JsonManyObjects(&c17Reader{b: buf, chunk: 0, failAt: -1}, &out)
				return out.Bytes(), err
			})
			if v := totalityViolation(r, buf, fmt.Sprintf("tag %d byte strings nested %d deep with consistent lengths", tagNo, depth)); v != nil {
				zsim.Fail(v.Clause, "%s", v.Msg)
			}
		}

		// (b) stored-byte faults and reader faults
		nMut := 10 + ch.Intn(30)
		for m := 0; m < nMut; m++ {
			src := stream
			if ch.Chance(1, 3) {
				src = stream[:ch.Intn(len(stream)+1)]
			}
			buf := append([]byte{}, src...)
			desc := mutate(ch, &buf)
			rd := &c17Reader{b: buf, chunk: []int{0, 1, 5, 4096}[ch.Intn(4)], failAt: -1, withN: ch.Chance(1, 2)}
			if ch.Chance(1, 6) && len(buf) > 0 {
				rd.failAt = ch.Intn(len(buf))
				zsim.Fault("read_error")
				desc += fmt.Sprintf("+read error at %d", rd.failAt)
			}
			var fd *c17FailDst
			if ch.Chance(1, 4) {
				// the destination of the decoded text refuses writes (a closed pipe, a full disk)
				fd = &c17FailDst{mode: ch.Intn(3)}
				zsim.Fault("dst_error")
				desc += fmt.Sprintf("+destination refusing writes (mode %d)", fd.mode)
			}
			r := guarded(len(buf), true, func() ([]byte, error) {
				var out bytes.Buffer
				var dst io.Writer = &out
				if fd != nil {
					fd.w = &out
					dst = fd
				}
				err := cbor.Cbor2JsonManyObjects(rd, dst)
				return out.Bytes(), err
			})
			if v := totalityViolation(r, buf, desc); v != nil {
				zsim.Fail(v.Clause, "%s", v.Msg)
			}
			if rd.failAt >= 0 && r.err == nil && r.panicked == nil && rd.failAt < len(buf) {
				// a reader error ends the stream early; bufio turns it into end-of-input,
				// so at least it must not be mistaken for more data: nothing to check beyond totality
				_ = r
			}
			// other entry points on the same bytes
			for ep := 0; ep < 3; ep++ {
				ep := ep
				r := guarded(len(buf), true, func() ([]byte, error) {
					switch ep {
					case 0:
						return cbor.DecodeIfBinaryToBytes(buf), nil
					case 1:
						return []byte(cbor.DecodeIfBinaryToString(buf)), nil
					default:
						var out bytes.Buffer
						_, err := zerolog.ConsoleWriter{Out: &out, NoColor: true}.Write(buf)
						return out.Bytes(), err
					}
				})
				if v := totalityViolation(r, buf, desc+fmt.Sprintf(" via entry point %d", ep)); v != nil {
					zsim.Fail(v.Clause, "%s", v.Msg)
				}
				if ep == 2 && len(buf) > 0 && len(r.out) == 0 && r.err == nil && r.panicked == nil {
					// a Write of a damaged event comes back with a rendered line and/or an error,
					// not with nothing
					zsim.Fail("C17.silent", "%s: ConsoleWriter.Write of %d stored bytes produced no output and no error; input %s", desc, len(buf), hexClip(buf, 120))
				}
			}
		}
		_ = s
	}
	s := zsim.Run(zsim.Config{MaxSteps: 3000000, Trace: trace}, ch, main)
	return finish(s, ch, summary, func() *zsim.Violation {
		if s.Stuck {
			return viol("C17.termination", "decoding does not terminate: a task is blocked forever (e.g. on a lock an earlier, failed decode never released); tasks: %s", s.StuckInfo)
		}
		return nil
	})
}

func totalityViolation(r decodeResult, input []byte, what string) *zsim.Violation {
	if r.panicked != nil {
		if r.panicked == zsim.BudgetExceeded {
			return viol("C17.termination", "%s: decoding %d bytes did not finish within the statement budget; input %s", what, len(input), hexClip(input, 120))
		}
		return viol("C17.panic", "%s: decoding %d bytes panicked: %v; input %s", what, len(input), r.panicked, hexClip(input, 120))
	}
	// the meter also sees what the simulator allocates on behalf of the decoder when that
	// uses channels or goroutines (waiter records, boxed values: well under 2 KiB each)
	if limit := uint64(256*len(input)) + 1<<20 + uint64(r.simOps)*2048; r.alloc > limit {
		return viol("C17.allocation", "%s: decoding %d bytes allocated %d bytes (limit 256 x input + 1 MiB, plus 2 KiB for each of the %d channel operations the simulator emulated); input %s", what, len(input), r.alloc, r.simOps, hexClip(input, 120))
	}
	return nil
}

// tagPayloads are small items of every major type (and some malformed ones) to put behind a tag.
var tagPayloads = [][]byte{
	{0x40}, {0x41, 0x00}, {0x43, 1, 2, 3}, append([]byte{0x4f}, make([]byte, 15)...), append([]byte{0x50}, make([]byte, 16)...), append([]byte{0x51}, make([]byte, 17)...),
	{0x60}, {0x63, 'a', 'b', 'c'}, {0x00}, {0x20}, {0x18, 0xff}, {0x80}, {0x82, 1, 2}, {0xa0}, {0xa1, 0x61, 'a', 1},
	{0xf6}, {0xf5}, {0xf7}, {0xc1, 0x00}, {0x5f, 0xff}, {0x7f, 0xff}, {0x9f, 0xff}, {0x58, 0x04, 1, 2, 3, 4}, {0x44, 10, 0, 0, 1},
}

// specialEvent builds {"k": <value>} in CBOR where the value is a number (plain or
// under the timestamp / duration-like tags) holding an extreme of its encoding.
func specialEvent(ch *zsim.Choices) ([]byte, string) {
	if ch.Chance(1, 2) {
		// any tag number in front of any small payload of any type: a tag handler must not
		// trust the type or the length of what follows
		var tag []byte
		switch ch.Intn(3) {
		case 0:
			tag = []byte{byte(0xc0 + ch.Intn(24))}
		case 1:
			tag = []byte{0xd8, byte(ch.Intn(256))}
		default:
			tag = []byte{0xd9, byte(ch.Intn(3)), byte(ch.Intn(256))}
		}
		if ch.Chance(1, 2) {
			// the tag numbers the decoder has handlers for (timestamp, embedded CBOR, network
			// address and prefix, embedded JSON, hex string): each handler reads its payload itself
			tag = [][]byte{{0xc1}, {0xd8, 0x3f}, {0xd9, 0x01, 0x04}, {0xd9, 0x01, 0x05}, {0xd9, 0x01, 0x06}, {0xd9, 0x01, 0x07}}[ch.Intn(6)]
			zsim.Probe("known_tag_in_front_of_arbitrary_payload")
		}
		payload := tagPayloads[ch.Intn(len(tagPayloads))]
		if ch.Chance(1, 4) {
			// a string, array or map header that declares megabytes to gigabytes (a positive
			// length, no top bit set) in front of three bytes: the torn tail of a large field
			major := byte(2 + ch.Intn(4))
			payload = [][]byte{
				{major<<5 | 26, 0x06, 0x00, 0x00, 0x00, 1, 2, 3},
				{major<<5 | 26, 0x00, 0x80, 0x00, 0x00, 1, 2, 3},
				{major<<5 | 27, 0, 0, 0, 0, 0x10, 0x00, 0x00, 0x00, 1, 2, 3},
				{major<<5 | 27, 0, 0, 0, 1, 0x00, 0x00, 0x00, 0x00, 1, 2, 3},
			}[ch.Intn(4)]
			zsim.Probe("tag_then_large_declared_length_short_payload")
		}
		buf := []byte{0xbf, 0x61, 'k'}
		buf = append(buf, tag...)
		buf = append(buf, payload...)
		buf = append(buf, 0xff)
		return buf, fmt.Sprintf("event {\"k\": tag %x payload %x}", tag, payload)
	}
	var v []byte
	switch ch.Intn(4) {
	case 0: // 64-bit float
		bits := []uint64{0x7ff0000000000000, 0xfff0000000000000, 0x7ff8000000000001, 0xffefffffffffffff, 0x7fefffffffffffff,
			0xc3e0000000000000, 0xc3e0000000000001, 0x43e0000000000000, 0x43f0000000000000, 0xc3f0000000000000, 0x0000000000000001, 0x8000000000000000}[ch.Intn(12)]
		v = []byte{0xfb, byte(bits >> 56), byte(bits >> 48), byte(bits >> 40), byte(bits >> 32), byte(bits >> 24), byte(bits >> 16), byte(bits >> 8), byte(bits)}
	case 1: // 32-bit float
		bits := []uint32{0x7f800000, 0xff800000, 0x7fc00001, 0xff7fffff, 0x7f7fffff, 0xdf000000, 0x5f000000, 0x00000001, 0x80000000}[ch.Intn(9)]
		v = []byte{0xfa, byte(bits >> 24), byte(bits >> 16), byte(bits >> 8), byte(bits)}
	case 2: // 16-bit float
		bits := []uint16{0x7c00, 0xfc00, 0x7e01, 0xfbff, 0x7bff, 0x0001, 0x8000}[ch.Intn(7)]
		v = []byte{0xf9, byte(bits >> 8), byte(bits)}
	case 3: // integers at the ends of their range
		v = [][]byte{
			{0x1b, 0xff, 0xff, 0xff, 0xff, 0xff, 0xff, 0xff, 0xff},
			{0x3b, 0xff, 0xff, 0xff, 0xff, 0xff, 0xff, 0xff, 0xff},
			{0x1b, 0x7f, 0xff, 0xff, 0xff, 0xff, 0xff, 0xff, 0xff},
			{0x3b, 0x7f, 0xff, 0xff, 0xff, 0xff, 0xff, 0xff, 0xff},
			{0x1b, 0x80, 0x00, 0x00, 0x00, 0x00, 0x00, 0x00, 0x00},
			{0x3b, 0x80, 0x00, 0x00, 0x00, 0x00, 0x00, 0x00, 0x00},
			{0x1a, 0xff, 0xff, 0xff, 0xff},
			{0x3a, 0xff, 0xff, 0xff, 0xff},
		}[ch.Intn(8)]
	}
	tag := [][]byte{nil, {0xc1}, {0xc1}, {0xc0}, {0xd9, 0x01, 0x04}, {0xd9, 0x01, 0x05}, {0xd9, 0x01, 0x06}, {0xd8, 0x20}}[ch.Intn(8)]
	buf := []byte{0xbf, 0x61, 'k'}
	buf = append(buf, tag...)
	buf = append(buf, v...)
	buf = append(buf, 0xff)
	return buf, fmt.Sprintf("event {\"k\": tag %x value %x}", tag, v)
}

// mutate damages stored bytes in place and says what it did.
func mutate(ch *zsim.Choices, bp *[]byte) string {
	b := *bp
	if len(b) == 0 {
		*bp = []byte{byte(0x80 + ch.Intn(128)), byte(ch.Intn(256)), byte(ch.Intn(256))}
		zsim.Fault("garbage_stream")
		return "three garbage bytes"
	}
	n := 1 + ch.Intn(3)
	var desc []string
	for i := 0; i < n; i++ {
		pos := ch.Intn(len(b))
		switch ch.Weighted(3, 3, 3, 2, 2, 2, 2, 1) {
		case 7:
			// a run of container headers: nesting far deeper than any event the encoder produces
			depth := []int{300, 1100, 5000}[ch.Intn(3)]
			hdr := []byte{0x9f, 0x81, 0xbf, 0xa1, 0xd8}[ch.Intn(5)]
			run := bytes.Repeat([]byte{hdr}, depth)
			b = append(b[:pos:pos], append(run, b[pos:]...)...)
			zsim.Fault("deep_nesting")
			desc = append(desc, fmt.Sprintf("%d x %#x inserted at %d", depth, hdr, pos))
		case 0:
			bit := ch.Intn(8)
			b[pos] ^= 1 << bit
			zsim.Fault("bit_flip")
			desc = append(desc, fmt.Sprintf("bit %d flipped at %d", bit, pos))
		case 1:
			// header bytes that announce 1/2/4/8-byte lengths of each major type
			v := byte(ch.Intn(8))<<5 | byte(24+ch.Intn(8))
			b[pos] = v
			zsim.Fault("header_overwrite")
			desc = append(desc, fmt.Sprintf("byte %d := %#x", pos, v))
		case 2:
			// an 8-byte length with the top bits set right after a string/array/map/tag header
			v := []byte{byte(2+ch.Intn(5))<<5 | 27, 0xff, 0xff, 0xff, 0xff, 0xff, 0xff, 0xff, 0xff}
			if ch.Chance(1, 2) {
				v[1] = 0x00
				v[2] = 0x00
				v[3] = 0x00
				v[4] = byte(ch.Intn(256))
			}
			b = append(b[:pos:pos], append(v, b[pos:]...)...)
			zsim.Fault("huge_length")
			desc = append(desc, fmt.Sprintf("huge length %x inserted at %d", v, pos))
		case 3:
			end := pos + 1 + ch.Intn(16)
			if end > len(b) {
				end = len(b)
			}
			for j := pos; j < end; j++ {
				b[j] = 0
			}
			zsim.Fault("zeroed_range")
			desc = append(desc, fmt.Sprintf("[%d,%d) zeroed", pos, end))
		case 4:
			end := pos + 1 + ch.Intn(16)
			if end > len(b) {
				end = len(b)
			}
			b = append(b[:pos:pos], b[end:]...)
			zsim.Fault("dropped_range")
			desc = append(desc, fmt.Sprintf("[%d,%d) dropped", pos, end))
			if len(b) == 0 {
				b = []byte{0xbf}
			}
		case 5:
			b = append(b, b[pos:]...)
			zsim.Fault("duplicated_tail")
			desc = append(desc, fmt.Sprintf("tail from %d duplicated", pos))
		case 6:
			for j := ch.Intn(12); j >= 0; j-- {
				b = append(b, byte(ch.Intn(256)))
			}
			zsim.Fault("garbage_tail")
			desc = append(desc, "garbage tail")
		}
	}
	*bp = b
	return strings.Join(desc, ", ")
}
