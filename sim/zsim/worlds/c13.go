package worlds

import (
	"fmt"
	"io"
	"math"
	"strings"
	"time"

	"github.com/anishathalye/porcupine"
	"github.com/rs/zerolog"
	"github.com/rs/zerolog/zsim"
)

// C13: samplers admit exactly the documented share.
//
//	mode A: BasicSampler behind a real Logger under concurrent tasks (counts,
//	        level gate, DisableSampling, linearizability of the Sample calls);
//	mode B: sequential histories of BurstSampler / LevelSampler / BasicSampler
//	        compositions on a world-controlled clock that jumps, stalls and runs
//	        backwards, compared call by call with a reference model.
type c13World struct{}

func init() { register("c13", c13World{}) }

func (c13World) Props() []string { return []string{"C13"} }

func (c13World) Components() (real, stub []string) {
	return []string{"BasicSampler", "BurstSampler", "LevelSampler", "Logger.should (level gate before sampler)", "DisableSampling switch"},
		[]string{"clock behind TimestampFunc (advances, stalls, jumps forward and backwards)", "counting wrapper around the sampler (observes consultations)", "destination writer", "reference models + porcupine (oracle)"}
}

// ---------- reference model ----------

type sModel struct {
	kind      int // 0 basic, 1 burst, 2 level
	n         uint32
	burst     uint32
	period    int64
	next      *sModel
	lv        [5]*sModel
	c         uint32
	count     uint32
	windowEnd int64
}

func (m *sModel) sample(lvl zerolog.Level, now int64) bool {
	switch m.kind {
	case 0:
		if m.n == 0 {
			return false
		}
		if m.n == 1 {
			return true
		}
		m.c++
		return m.c%m.n == 1
	case 1:
		if m.burst > 0 && m.period > 0 {
			if now >= m.windowEnd {
				m.windowEnd = now + m.period
				m.count = 1
			} else {
				m.count++
			}
			if m.count <= m.burst {
				return true
			}
		}
		if m.next == nil {
			return false
		}
		return m.next.sample(lvl, now)
	default:
		idx := -1
		switch lvl {
		case zerolog.TraceLevel:
			idx = 0
		case zerolog.DebugLevel:
			idx = 1
		case zerolog.InfoLevel:
			idx = 2
		case zerolog.WarnLevel:
			idx = 3
		case zerolog.ErrorLevel:
			idx = 4
		}
		if idx < 0 || m.lv[idx] == nil {
			return true
		}
		return m.lv[idx].sample(lvl, now)
	}
}

func (m *sModel) String() string {
	if m == nil {
		return "nil"
	}
	switch m.kind {
	case 0:
		return fmt.Sprintf("Basic{%d}", m.n)
	case 1:
		return fmt.Sprintf("Burst{%d,%dns,%v}", m.burst, m.period, m.next)
	}
	var p []string
	for _, x := range m.lv {
		p = append(p, x.String())
	}
	return "Level{" + strings.Join(p, ",") + "}"
}

// c13Derive: the sampler stays with a logger through every later derivation step
// (re-targeting with Output, adding context, hooks, a level that lets the same events
// through).
func c13Derive(ch *zsim.Choices, lg zerolog.Logger, w io.Writer) zerolog.Logger {
	for n := ch.Weighted(3, 2, 1); n > 0; n-- {
		switch ch.Intn(4) {
		case 0:
			lg = lg.Output(w)
		case 1:
			lg = lg.With().Str("d", "x").Logger()
		case 2:
			lg = lg.Hook(zerolog.HookFunc(func(e *zerolog.Event, l zerolog.Level, m string) {}))
		case 3:
			lg = lg.Level(lg.GetLevel())
		}
		zsim.Probe("sampled_logger_derived")
	}
	return lg
}

func zsimProbe13() { zsim.Probe("huge_burst") }

// genSampler draws a sampler composition and its model.
func genSampler(c *zsim.Choices, depth int) (zerolog.Sampler, *sModel) {
	if depth == 0 && c.Chance(1, 30) {
		// a long hand-over chain: dozens of BurstSamplers with tiny bursts, each the NextSampler
		// of the one before, and a BasicSampler at the end
		zsim.Probe("long_sampler_chain")
		n := 33 + c.Intn(40)
		var tail zerolog.Sampler = &zerolog.BasicSampler{N: 2}
		tm := &sModel{kind: 0, n: 2}
		for i := 0; i < n; i++ {
			b := uint32(c.Intn(2))
			p := []int64{10, 1000}[c.Intn(2)]
			tail = &zerolog.BurstSampler{Burst: b, Period: time.Duration(p), NextSampler: tail}
			tm = &sModel{kind: 1, burst: b, period: p, next: tm}
		}
		return tail, tm
	}
	k := c.Weighted(3, 5, 2)
	if depth >= 2 && k != 0 {
		k = c.Weighted(1, 1) // basic or burst without deeper nesting
	}
	switch k {
	case 0:
		n := []uint32{2, 0, 1, 3, 5, 8}[c.Intn(6)]
		if c.Chance(1, 12) {
			// "practically never again": the largest values of the field's type
			n = []uint32{math.MaxUint32, 1 << 31, 1<<31 + 1}[c.Intn(3)]
		}
		return &zerolog.BasicSampler{N: n}, &sModel{kind: 0, n: n}
	case 1:
		b := uint32(c.Intn(5))
		if c.Chance(1, 10) {
			// "unlimited" burst: the largest values of the field's type
			b = []uint32{math.MaxUint32, 1 << 31, 1<<31 + 1, math.MaxInt32}[c.Intn(4)]
			zsimProbe13()
		}
		p := []int64{10, 0, 1, 1000}[c.Intn(4)]
		s := &zerolog.BurstSampler{Burst: b, Period: time.Duration(p)}
		m := &sModel{kind: 1, burst: b, period: p}
		if depth < 2 && c.Chance(2, 3) {
			ns, nm := genSampler(c, depth+1)
			s.NextSampler, m.next = ns, nm
		}
		return s, m
	default:
		var ls zerolog.LevelSampler
		m := &sModel{kind: 2}
		slots := []*zerolog.Sampler{&ls.TraceSampler, &ls.DebugSampler, &ls.InfoSampler, &ls.WarnSampler, &ls.ErrorSampler}
		for i := range slots {
			if c.Chance(1, 2) {
				s, sm := genSampler(c, depth+1)
				*slots[i] = s
				m.lv[i] = sm
			}
		}
		return ls, m
	}
}

// ---------- mode A ----------

type sCall struct {
	call, ret int64
	client    int
	out       bool
	direct    bool
}

type countingSampler struct {
	inner    zerolog.Sampler
	calls    []*sCall
	tick     *int64
	directBy map[int]bool
}

func (c *countingSampler) Sample(l zerolog.Level) bool {
	if zsim.Dying() {
		return false
	}
	*c.tick++
	sc := &sCall{call: *c.tick, client: zsim.CurID(), direct: c.directBy[zsim.CurID()]}
	res := c.inner.Sample(l)
	if zsim.Dying() {
		return res
	}
	*c.tick++
	sc.ret = *c.tick
	sc.out = res
	c.calls = append(c.calls, sc)
	return res
}

type c13Sink struct{ got map[string]int }

func (s *c13Sink) Write(p []byte) (int, error) {
	if zsim.Dying() {
		return len(p), nil
	}
	str := string(p)
	i := strings.Index(str, `"message":"`)
	if i >= 0 {
		id := str[i+11:]
		if j := strings.IndexByte(id, '"'); j >= 0 {
			s.got[id[:j]]++
		}
	}
	zsim.Yield("sink.Write")
	return len(p), nil
}

func ceilDiv(k, n int) int {
	if n == 0 {
		return 0
	}
	return (k + n - 1) / n
}

func (c13World) Run(prop string, ch *zsim.Choices, trace bool) *RunResult {
	oldTS := zerolog.TimestampFunc
	defer func() {
		zerolog.TimestampFunc = oldTS
		zerolog.SetGlobalLevel(zerolog.TraceLevel)
		zerolog.DisableSampling(false)
	}()
	if ch.Weighted(1, 1) == 0 {
		return c13Concurrent(ch, trace)
	}
	return c13Sequential(ch, trace)
}

func c13Concurrent(ch *zsim.Choices, trace bool) *RunResult {
	summary := ""
	var tick int64
	sink := &c13Sink{got: map[string]int{}}
	var cs *countingSampler
	var n uint32
	type evRec struct {
		id    string
		phase int
		pass  bool
	}
	var evs []evRec
	direct := 0
	main := func() {
		s := zsim.S
		zerolog.DisableSampling(false)
		glob := []zerolog.Level{zerolog.TraceLevel, zerolog.WarnLevel}[ch.Weighted(3, 1)]
		zerolog.SetGlobalLevel(glob)
		n = []uint32{2, 0, 1, 3, 5, 8}[ch.Intn(6)]
		cs = &countingSampler{inner: &zerolog.BasicSampler{N: n}, tick: &tick, directBy: map[int]bool{}}
		lgLevel := []zerolog.Level{zerolog.InfoLevel, zerolog.DebugLevel}[ch.Intn(2)]
		var lg zerolog.Logger
		c13WhileDisabled(ch, func() { lg = c13Derive(ch, zerolog.New(sink).Level(lgLevel).Sample(cs), sink) })
		s.ArmDraw([]string{"sampler.go", "log.go", "globals.go"})
		nTasks := 2 + ch.Intn(4)
		phases := 1 + ch.Weighted(2, 1, 1)
		summary = fmt.Sprintf("mode=concurrent-basic N=%d tasks=%d phases=%d logger-level=%v global-level=%v", n, nTasks, phases, lgLevel, glob)
		zsim.Log("config: %s", summary)
		budget := 36 / (nTasks * phases)
		for ph := 0; ph < phases; ph++ {
			disabled := ph == 1
			// the switch is flipped while another goroutine re-asserts the (unchanged) global
			// level: the two settings are independent and neither call may undo the other
			setter := zsim.Spawn(fmt.Sprintf("p%d.setlevel", ph), func() {
				for i := 0; i < 3; i++ {
					zerolog.SetGlobalLevel(glob)
					zsim.Yield("setlevel")
				}
			})
			zerolog.DisableSampling(disabled)
			zsim.Join(setter)
			if zerolog.GlobalLevel() != glob {
				zsim.Fail("C13.level_gate", "DisableSampling(%v) concurrent with SetGlobalLevel(%v) left the global level at %v", disabled, glob, zerolog.GlobalLevel())
			}
			if disabled {
				zsim.Fault("sampling_disabled_phase")
			}
			var ts []*zsim.Task
			for t := 0; t < nTasks; t++ {
				ops := 1 + ch.Intn(budget)
				t, ph := t, ph
				ts = append(ts, zsim.Spawn(fmt.Sprintf("p%d.t%d", ph, t), func() {
					for i := 0; i < ops; i++ {
						if !disabled && ch.Chance(1, 6) {
							cs.directBy[zsim.CurID()] = true
							cs.Sample(zerolog.InfoLevel)
							delete(cs.directBy, zsim.CurID())
							direct++
							continue
						}
						lvl := []zerolog.Level{zerolog.InfoLevel, zerolog.DebugLevel, zerolog.WarnLevel, zerolog.ErrorLevel, zerolog.TraceLevel, zerolog.Disabled}[ch.Intn(6)]
						id := fmt.Sprintf("p%d.t%d.%d", ph, t, i)
						if lvl == zerolog.DebugLevel && ch.Chance(1, 2) {
							// the Print family logs at debug level: one consultation per call, like any event
							switch ch.Intn(3) {
							case 0:
								evs = append(evs, evRec{id, ph, lvl >= lgLevel && lvl >= glob})
								lg.Print(id)
							case 1:
								evs = append(evs, evRec{id, ph, lvl >= lgLevel && lvl >= glob})
								lg.Printf("%s", id)
							default:
								// Logger.Write logs without a level (NoLevel passes every threshold)
								evs = append(evs, evRec{id, ph, true})
								lg.Write([]byte(id))
							}
							zsim.Probe("print_family_event")
							continue
						}
						// an event created with WithLevel(Disabled) is never written and never sampled
						evs = append(evs, evRec{id, ph, lvl != zerolog.Disabled && lvl >= lgLevel && lvl >= glob})
						lg.WithLevel(lvl).Msg(id)
					}
				}))
			}
			zsim.Join(ts...) // barrier: the switch is only flipped while tasks are quiescent
		}
	}
	s := zsim.Run(zsim.Config{MaxSteps: 200000, Trace: trace}, ch, main)
	return finish(s, ch, summary, func() *zsim.Violation {
		if s.Stuck || s.Truncated {
			return nil
		}
		// consultations: exactly the gate-passing events of sampling-enabled phases (+ direct calls)
		wantK := direct
		for _, e := range evs {
			if e.pass && e.phase != 1 {
				wantK++
			}
		}
		k := len(cs.calls)
		if k != wantK {
			return viol("C13.level_gate", "the sampler was consulted %d time(s); %d events passed the level gates while sampling was enabled (plus %d direct calls): rejected or sampling-disabled events must not consume sampler budget", k, wantK-direct, direct)
		}
		adm := 0
		for _, c := range cs.calls {
			if c.out {
				adm++
			}
		}
		if adm != ceilDiv(k, int(n)) {
			return viol("C13.basic_share", "BasicSampler{%d} admitted %d of %d sampled events, documented share is %d", n, adm, k, ceilDiv(k, int(n)))
		}
		// linearizability of the Sample calls against the counter model (first call admitted, every N-th after)
		var ops []porcupine.Operation
		for _, c := range cs.calls {
			ops = append(ops, porcupine.Operation{ClientId: c.client, Input: 0, Call: c.call, Output: c.out, Return: c.ret})
		}
		model := porcupine.Model{
			Init: func() interface{} { return 0 },
			Step: func(st, in, out interface{}) (bool, interface{}) {
				c := st.(int) + 1
				var want bool
				switch {
				case n == 0:
					want = false
				case n == 1:
					want = true
				default:
					want = c%int(n) == 1
				}
				return want == out.(bool), c
			},
		}
		if len(ops) > 0 {
			switch porcupine.CheckOperationsTimeout(model, ops, 8*time.Second) {
			case porcupine.Illegal:
				return viol("C13.basic_linearizable", "the Sample results of BasicSampler{%d} over %d concurrent calls are not those of any sequential order (first admitted, then every %d-th)", n, k, n)
			case porcupine.Unknown:
				s.Probes["linearizability_inconclusive"]++
			default:
				s.Probes["linearizable_histories"]++
			}
		}
		// the writer shows exactly the admitted events
		for _, e := range evs {
			if sink.got[e.id] > 1 {
				return viol("C13.basic_share", "event %s was written %d times", e.id, sink.got[e.id])
			}
			if e.phase == 1 {
				w := 0
				if e.pass {
					w = 1
				}
				if sink.got[e.id] != w {
					return viol("C13.disable_sampling", "event %s (passes level gates: %v) was written %d time(s) while DisableSampling(true) was in force", e.id, e.pass, sink.got[e.id])
				}
				continue
			}
			if !e.pass && sink.got[e.id] != 0 {
				return viol("C13.level_gate", "event %s is below the level gate but was written", e.id)
			}
		}
		written, admLogged := 0, 0
		for _, e := range evs {
			if e.phase != 1 {
				written += sink.got[e.id]
			}
		}
		for _, c := range cs.calls {
			if c.out && !c.direct {
				admLogged++
			}
		}
		if written != admLogged {
			return viol("C13.basic_share", "the sampler admitted %d logged events but %d reached the writer", admLogged, written)
		}
		return nil
	})
}

// c13WhileDisabled builds the logger, in some runs while DisableSampling(true) is
// in force: the switch suspends sampling for the events logged while it is on,
// it does not change which sampler a logger derived meanwhile carries.
func c13WhileDisabled(ch *zsim.Choices, build func()) {
	if ch.Chance(1, 4) {
		zerolog.DisableSampling(true)
		build()
		zerolog.DisableSampling(false)
		zsim.Probe("derived_while_sampling_disabled")
		return
	}
	build()
}

// ---------- mode B ----------

func c13Sequential(ch *zsim.Choices, trace bool) *RunResult {
	summary := ""
	var fail *zsim.Violation
	sink := &c13Sink{got: map[string]int{}}
	fatalID, fatalWant, fatalModel := "", false, ""
	main := func() {
		zerolog.DisableSampling(false)
		// levels below Trace are legal (custom verbosity levels): the gates must be low enough for them
		glob := []zerolog.Level{zerolog.TraceLevel, zerolog.Level(-8)}[ch.Weighted(3, 1)]
		zerolog.SetGlobalLevel(glob)
		var clock int64 = int64(ch.Intn(3)) * 1000
		// TimestampFunc is a variable: the application may replace it at any time, and a sampler
		// reads the clock through whatever it holds at that moment. A replaced function keeps
		// returning the reading it gave last.
		gen := 0
		var frozen []int64
		install := func() {
			if len(frozen) > 0 {
				frozen[gen] = clock
				gen++
			}
			frozen = append(frozen, 0)
			g := gen
			zerolog.TimestampFunc = func() time.Time {
				if g != gen {
					return time.Unix(0, frozen[g])
				}
				return time.Unix(0, clock)
			}
		}
		install()
		smp, model := genSampler(ch, 0)
		lgLevel := []zerolog.Level{zerolog.TraceLevel, zerolog.InfoLevel, zerolog.Level(-6)}[ch.Weighted(3, 3, 1)]
		var lg zerolog.Logger
		c13WhileDisabled(ch, func() { lg = c13Derive(ch, zerolog.New(sink).Level(lgLevel).Sample(smp), sink) })
		calls := 5 + ch.Intn(36)
		summary = fmt.Sprintf("mode=sequential sampler=%v calls=%d logger-level=%v", model, calls, lgLevel)
		zsim.Log("config: %s", summary)
		var hist []string
		for i := 0; i < calls; i++ {
			// clock faults between calls
			switch ch.Weighted(4, 4, 2, 2, 2, 2, 1) {
			case 0:
				zsim.Fault("clock_frozen")
			case 1:
				clock++
			case 2:
				clock += 9
			case 3:
				clock += 10
			case 4:
				clock += 1000 + int64(ch.Intn(3000))
				zsim.Fault("clock_jump_forward")
			case 5:
				clock -= int64(1 + ch.Intn(20))
				zsim.Fault("clock_backwards")
			case 6:
				clock -= 5000
				zsim.Fault("clock_backwards_far")
			}
			if clock < 0 {
				clock = 0
			}
			if ch.Chance(1, 12) {
				install()
				zsim.Probe("timestamp_func_replaced")
			}
			// WithLevel(Fatal/Panic) neither exits nor panics; LevelSampler has no slot for them
			lvl := []zerolog.Level{zerolog.InfoLevel, zerolog.DebugLevel, zerolog.WarnLevel, zerolog.ErrorLevel, zerolog.TraceLevel, zerolog.NoLevel, zerolog.FatalLevel, zerolog.PanicLevel, zerolog.Level(9), zerolog.Disabled, zerolog.Level(-2), zerolog.Level(-5)}[ch.Intn(12)]
			var got, want bool
			viaLogger := ch.Chance(1, 2) || lvl == zerolog.Disabled
			if viaLogger {
				id := fmt.Sprintf("s%d", i)
				if lvl == zerolog.NoLevel {
					lg.Log().Msg(id)
				} else if lvl == zerolog.DebugLevel && ch.Chance(1, 2) {
					lg.Print(id)
				} else {
					lg.WithLevel(lvl).Msg(id)
				}
				got = sink.got[id] == 1
				if lvl < lgLevel || lvl < glob || lvl == zerolog.Disabled {
					// rejected by the level gate: must not reach the sampler (model untouched)
					want = false
					zsim.Probe("level_rejected_event")
				} else {
					want = model.sample(lvl, clock)
				}
			} else {
				got = smp.Sample(lvl)
				want = model.sample(lvl, clock)
			}
			hist = append(hist, fmt.Sprintf("t=%d %v logger=%v -> %v", clock, lvl, viaLogger, got))
			if got != want {
				if len(hist) > 12 {
					hist = hist[len(hist)-12:]
				}
				zsim.Fail("C13.sequence", "call %d (level %v at clock %d, through logger: %v) returned %v, the documented rule gives %v for %v; last calls:\n%s", i, lvl, clock, viaLogger, got, want, model, strings.Join(hist, "\n"))
			}
		}
		if ch.Chance(1, 6) {
			// the last event of the process is a real Fatal(): it is sampled like any other event
			// (the process exits either way; what reached the writer is compared afterwards)
			fatalID = "fatal"
			fatalModel = model.String()
			fatalWant = model.sample(zerolog.FatalLevel, clock)
			zsim.Probe("fatal_through_sampler")
			lg.Fatal().Msg(fatalID)
			zsim.Fail("harness", "Fatal().Msg returned")
		}
	}
	s := zsim.Run(zsim.Config{MaxSteps: 100000, Trace: trace}, ch, main)
	return finish(s, ch, summary, func() *zsim.Violation {
		if fail != nil {
			return fail
		}
		if fatalID != "" && s.Exited {
			if got := sink.got[fatalID] == 1; got != fatalWant {
				return viol("C13.sequence", "the final Fatal() event was written: %v; the documented rule gives %v for %v (state before the call)", got, fatalWant, fatalModel)
			}
		}
		return nil
	})
}
