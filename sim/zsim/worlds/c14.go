package worlds

import (
	"bytes"
	"errors"
	"fmt"
	"io"
	"os"
	"strings"
	"time"

	"github.com/rs/zerolog"
	"github.com/rs/zerolog/zsim"
)

// C14: writer fan-out is complete and failures stay contained.
type c14World struct{}

func init() { register("c14", c14World{}) }

func (c14World) Props() []string { return []string{"C14"} }

func (c14World) Components() (real, stub []string) {
	return []string{"MultiLevelWriter", "FilteredLevelWriter", "LevelWriterAdapter", "Event.msg/write error path", "Logger"},
		[]string{"destinations with a per (destination, event) fault plan: ok / error / short write", "ErrorHandler (recorder)"}
}

const (
	ocOK = iota
	ocErr
	ocShort
	ocErrFull // the whole length reported together with an error (ConsoleWriter and the syslog writers do that)
)

type c14Rec struct {
	task  int
	ev    *c14Ev
	level zerolog.Level
	hasLv bool
	b     []byte
}

type c14Dst struct {
	r       *c14Run
	idx     int
	leveled bool
	filter  bool
	min     zerolog.Level
	flw     *zerolog.FilteredLevelWriter
	recs    []c14Rec
}

type c14Ev struct {
	viaWrite bool // emitted through Logger.Write (the io.Writer face of a Logger)
	panics   bool // logged with Logger.Panic(): the done callback panics after the write
	id       string
	task     int
	level    zerolog.Level
	ops      []fop
	outcome  []int
	errs     []error
	want     []byte
	handler  []error
	ret      bool
	inflight bool
	mins     []zerolog.Level // the filter level of every destination when the event was logged
	fin      int             // how the event is finished: 0 Msg, 1 Send, 2 Msgf, 3 MsgFunc
}

type c14Run struct {
	plain  bool // the fan-out is reached through plain Write: destinations see no level, filters pass everything
	ch     *zsim.Choices
	dsts   []*c14Dst
	cur    map[int]*c14Ev
	byID   map[string]*c14Ev
	single bool
	// noHandler: zerolog.ErrorHandler is nil (its documented "not set" state: the error is
	// printed to stderr); what is left to check is that the logging calls return normally
	noHandler bool
}

// eventOf finds the event that bytes handed to a destination belong to. Which goroutine
// carries them there is the fan-out's business (it may use a helper): the event is
// recognised by its id field, and it must be one whose logging call is in progress.
func (r *c14Run) eventOf(p []byte) *c14Ev {
	const key = `"id":"`
	i := bytes.Index(p, []byte(key))
	if i < 0 {
		return nil
	}
	rest := p[i+len(key):]
	j := bytes.IndexByte(rest, '"')
	if j < 0 {
		return nil
	}
	ev := r.byID[string(rest[:j])]
	if ev == nil || !ev.inflight {
		return nil
	}
	return ev
}

func (d *c14Dst) do(l zerolog.Level, hasLv bool, p []byte) (int, error) {
	if zsim.Dying() {
		return len(p), nil
	}
	r := d.r
	ev := r.eventOf(p)
	if ev == nil {
		zsim.Fail("C14.fanout", "destination %d received bytes that belong to no event whose logging call is in progress: %s", d.idx, clip(p, 80))
	}
	d.recs = append(d.recs, c14Rec{ev.task, ev, l, hasLv, append([]byte{}, p...)})
	zsim.Yield("dst.Write")
	switch ev.outcome[d.idx] {
	case ocErr:
		zsim.Fault("dst_error")
		return 0, ev.errs[d.idx]
	case ocErrFull:
		zsim.Fault("dst_error")
		zsim.Probe("dst_error_with_full_count")
		return len(p), ev.errs[d.idx]
	case ocShort:
		zsim.Fault("dst_short_write")
		if len(p) == 0 {
			return 0, nil
		}
		return len(p) - 1 - int(fnv(p)%uint64(len(p))), nil
	}
	return len(p), nil
}

type c14Plain struct{ d *c14Dst }

func (w c14Plain) Write(p []byte) (int, error) { return w.d.do(0, false, p) }

type c14Leveled struct{ d *c14Dst }

func (w c14Leveled) Write(p []byte) (int, error) { return w.d.do(0, false, p) }
func (w c14Leveled) WriteLevel(l zerolog.Level, p []byte) (int, error) {
	return w.d.do(l, true, p)
}

func (c14World) Run(prop string, ch *zsim.Choices, trace bool) *RunResult {
	r := &c14Run{ch: ch, cur: map[int]*c14Ev{}, byID: map[string]*c14Ev{}}
	oldEH, oldTS, oldErr := zerolog.ErrorHandler, zerolog.TimestampFunc, os.Stderr
	defer func() {
		zerolog.ErrorHandler, zerolog.TimestampFunc = oldEH, oldTS
		if os.Stderr != oldErr {
			os.Stderr.Close()
			os.Stderr = oldErr
		}
	}()
	summary := ""
	var events []*c14Ev
	main := func() {
		s := zsim.S
		zerolog.SetGlobalLevel(zerolog.TraceLevel)
		zerolog.TimestampFunc = func() time.Time { return refTime }
		zerolog.ErrorHandler = func(err error) {
			if zsim.Dying() {
				return
			}
			// whose error: the destinations' errors name their event; otherwise the event the
			// calling task is logging, otherwise the only one in progress
			var ev *c14Ev
			for _, x := range events {
				if x.inflight && strings.Contains(err.Error(), " on "+x.id+":") {
					ev = x
				}
			}
			if ev == nil {
				ev = r.cur[zsim.CurID()]
			}
			if ev == nil {
				n := 0
				for _, x := range events {
					if x.inflight {
						ev = x
						n++
					}
				}
				if n != 1 {
					ev = nil
				}
			}
			if ev == nil {
				zsim.Fail("C14.handler", "ErrorHandler called outside any logging call: %v", err)
			}
			ev.handler = append(ev.handler, err)
		}
		if ch.Chance(1, 8) {
			r.noHandler = true
			zerolog.ErrorHandler = nil
			if dn, err := os.OpenFile(os.DevNull, os.O_WRONLY, 0); err == nil {
				os.Stderr = dn
			}
			zsim.Probe("error_handler_nil")
		}
		s.ArmDraw([]string{"writer.go", "event.go"})
		nd := 1 + ch.Weighted(2, 4, 4, 2)
		r.single = nd == 1 && ch.Chance(1, 2)
		var ws []io.Writer
		for i := 0; i < nd; i++ {
			d := &c14Dst{r: r, idx: i}
			r.dsts = append(r.dsts, d)
			switch ch.Weighted(3, 3, 3) {
			case 0:
				ws = append(ws, c14Plain{d})
			case 1:
				d.leveled = true
				ws = append(ws, c14Leveled{d})
			case 2:
				d.leveled = true
				d.filter = true
				d.min = c14FilterLevels[ch.Intn(len(c14FilterLevels))]
				d.flw = &zerolog.FilteredLevelWriter{Writer: c14Leveled{d}, Level: d.min}
				ws = append(ws, d.flw)
			}
			if ch.Chance(1, 5) {
				// a SyncWriter around one destination: bytes, level and result must pass through it
				ws[len(ws)-1] = zerolog.SyncWriter(ws[len(ws)-1])
				zsim.Probe("sync_wrapped_destination")
			}
		}
		var lg zerolog.Logger
		nested := false
		if r.single {
			lg = zerolog.New(ws[0])
		} else if nd >= 3 && ch.Chance(1, 3) {
			// a MultiLevelWriter inside a MultiLevelWriter: same fan-out, same first-failure rule
			nested = true
			lg = zerolog.New(zerolog.MultiLevelWriter(zerolog.MultiLevelWriter(ws[:2]...), zerolog.MultiLevelWriter(ws[2:]...)))
		} else if ch.Chance(1, 4) {
			zsim.Probe("sync_wrapped_fanout")
			lg = zerolog.New(zerolog.SyncWriter(zerolog.MultiLevelWriter(ws...)))
		} else if ch.Chance(1, 5) {
			// the fan-out driven through plain Write (behind an adapter that hides WriteLevel,
			// as behind ConsoleWriter.Out, bufio or the stdlib logger): no levels, no filtering
			zsim.Probe("fanout_plain_write")
			r.plain = true
			lg = zerolog.New(zerolog.LevelWriterAdapter{Writer: zerolog.MultiLevelWriter(ws...)})
		} else {
			lg = zerolog.New(zerolog.MultiLevelWriter(ws...))
		}
		if !r.single && ch.Chance(1, 2) {
			// the caller reuses the slice it passed as ws...: the fan-out must have its own list
			for i := range ws {
				ws[i] = io.Discard
			}
			zsim.Probe("caller_slice_reused")
		}
		lg = lg.With().Str("svc", "x").Logger()
		nTasks := 1 + ch.Weighted(3, 1)
		faultRate := []int{0, 1, 2, 4}[ch.Intn(4)] // out of 6
		summary = fmt.Sprintf("destinations=%d single=%v nested=%v tasks=%d fault-rate=%d/6", nd, r.single, nested, nTasks, faultRate)
		var per [][]*c14Ev
		n := 0
		for t := 0; t < nTasks; t++ {
			k := 1 + ch.Intn(6)
			var evs []*c14Ev
			for i := 0; i < k; i++ {
				n++
				ev := &c14Ev{id: fmt.Sprintf("ev%d", n), task: t}
				ev.level = []zerolog.Level{zerolog.InfoLevel, zerolog.DebugLevel, zerolog.WarnLevel, zerolog.ErrorLevel, zerolog.TraceLevel, zerolog.NoLevel}[ch.Intn(6)]
				ev.ops = genOps(ch, ch.Intn(3), 1, "f")
				ev.fin = ch.Weighted(3, 2, 1, 1)
				if ch.Chance(1, 6) {
					ev.level = zerolog.PanicLevel
					ev.panics = true
				}
				for d := 0; d < nd; d++ {
					oc := ocOK
					if ch.Intn(6) < faultRate {
						oc = 1 + ch.Weighted(3, 3, 1)
					}
					ev.outcome = append(ev.outcome, oc)
					// distinct per (destination, event), wrapping error values that code likes to
					// special-case
					base := []error{errors.New("plain"), os.ErrClosed, io.ErrClosedPipe, io.ErrShortWrite, io.EOF}[ch.Intn(5)]
					ev.errs = append(ev.errs, fmt.Errorf("error of destination %d on %s: %w", d, ev.id, base))
					if r.noHandler && ch.Chance(1, 8) {
						// an error value that cannot even be printed (a typed nil whose Error method
						// dereferences it): with no handler installed the logging call still returns
						ev.errs[d] = (*c14BadErr)(nil)
						zsim.Probe("error_whose_Error_panics")
					}
				}
				if !ev.panics && ch.Chance(1, 8) {
					// the standard library's log package (log.New(logger, ...), http.Server.ErrorLog)
					// writes through Logger.Write: an event without level like any other
					ev.viaWrite = true
					ev.level = zerolog.NoLevel
				}
				evs = append(evs, ev)
				events = append(events, ev)
				r.byID[ev.id] = ev
			}
			per = append(per, evs)
		}
		// reference bytes: the same event on a fault-free single destination
		for _, ev := range events {
			var buf bytes.Buffer
			ref := zerolog.New(&buf).With().Str("svc", "x").Logger()
			emit14(&ref, ev)
			ev.want = append([]byte{}, buf.Bytes()...)
		}
		var ts []*zsim.Task
		for t := 0; t < nTasks; t++ {
			evs := per[t]
			ts = append(ts, zsim.Spawn(fmt.Sprintf("log%d", t), func() {
				for _, ev := range evs {
					if nTasks == 1 && ch.Chance(1, 4) {
						// Level is an exported field: the owner turns a filter up or down between events
						for _, d := range r.dsts {
							if d.flw != nil && ch.Chance(1, 2) {
								d.min = c14FilterLevels[ch.Intn(len(c14FilterLevels))]
								d.flw.Level = d.min
								zsim.Probe("filter_level_changed")
							}
						}
					}
					for _, d := range r.dsts {
						ev.mins = append(ev.mins, d.min)
					}
					r.cur[zsim.CurID()] = ev
					ev.inflight = true
					emit14(&lg, ev)
					ev.ret = true
					ev.inflight = false
					delete(r.cur, zsim.CurID())
				}
			}))
		}
		zsim.Join(ts...)
	}
	s := zsim.Run(zsim.Config{MaxSteps: 200000, Trace: trace}, ch, main)
	return finish(s, ch, summary, func() *zsim.Violation {
		if s.Stuck {
			return viol("C14.returns", "logging calls cannot finish: %s", s.StuckInfo)
		}
		if s.Truncated {
			return nil
		}
		for _, ev := range events {
			if !ev.ret {
				return viol("C14.returns", "the logging call of %s did not return", ev.id)
			}
		}
		// per destination: exactly the expected events, once, in each task's order
		for _, d := range r.dsts {
			got := map[*c14Ev]int{}
			lastByTask := map[int]int{}
			for _, rec := range d.recs {
				got[rec.ev]++
				if !bytes.Equal(rec.b, rec.ev.want) {
					return viol("C14.fanout", "destination %d received %s for %s, a fault-free logger emits %s (outcomes of this event: %v)", d.idx, clip(rec.b, 160), rec.ev.id, clip(rec.ev.want, 160), rec.ev.outcome)
				}
				if d.leveled && !r.plain && (!rec.hasLv || rec.level != rec.ev.level) {
					return viol("C14.fanout", "destination %d received %s with level %v (has level: %v), the event's level is %v", d.idx, rec.ev.id, rec.level, rec.hasLv, rec.ev.level)
				}
				var n int
				fmt.Sscanf(rec.ev.id, "ev%d", &n)
				if last, ok := lastByTask[rec.task]; ok && last >= n {
					return viol("C14.fanout", "destination %d received %s out of order", d.idx, rec.ev.id)
				}
				lastByTask[rec.task] = n
			}
			for _, ev := range events {
				want := 1
				if d.filter && ev.level < ev.mins[d.idx] && !r.plain {
					want = 0
				}
				if got[ev] != want {
					return viol("C14.fanout", "destination %d (filter=%v, level at that time %v) received event %s (level %v) %d time(s), expected %d; outcomes of this event per destination: %v", d.idx, d.filter, ev.mins[d.idx], ev.id, ev.level, got[ev], want, ev.outcome)
				}
			}
		}
		// ErrorHandler: once per failing event, with the first failing destination's error
		for _, ev := range events {
			if r.noHandler {
				break
			}
			var want error
			for i, d := range r.dsts {
				if d.filter && ev.level < ev.mins[i] && !r.plain {
					continue
				}
				if ev.outcome[i] == ocErr || ev.outcome[i] == ocErrFull {
					want = ev.errs[i]
					break
				}
				if ev.outcome[i] == ocShort && !r.single {
					want = io.ErrShortWrite
					break
				}
			}
			if want == nil {
				if len(ev.handler) != 0 {
					return viol("C14.handler", "ErrorHandler called %d time(s) (%v) for %s although no destination failed (outcomes %v)", len(ev.handler), ev.handler, ev.id, ev.outcome)
				}
				continue
			}
			if len(ev.handler) != 1 {
				return viol("C14.handler", "ErrorHandler called %d time(s) for %s, expected exactly once with %q (outcomes %v)", len(ev.handler), ev.id, want, ev.outcome)
			}
			if !errors.Is(ev.handler[0], want) {
				return viol("C14.handler", "ErrorHandler received %q for %s, the first failing destination gives %q (outcomes %v)", ev.handler[0], ev.id, want, ev.outcome)
			}
		}
		return nil
	})
}

var c14FilterLevels = []zerolog.Level{zerolog.DebugLevel, zerolog.InfoLevel, zerolog.WarnLevel, zerolog.ErrorLevel, zerolog.TraceLevel, zerolog.NoLevel, zerolog.Level(5)}

// c14BadErr is an error whose Error method panics when the receiver is nil.
type c14BadErr struct{ msg string }

func (e *c14BadErr) Error() string { return e.msg }

func emit14(lg *zerolog.Logger, ev *c14Ev) {
	var e *zerolog.Event
	if ev.viaWrite {
		zsim.Probe("event_through_logger_write")
		child := lg.With().Str("id", ev.id).Logger()
		child.Write([]byte("m\n"))
		return
	}
	if ev.panics {
		// Panic() events carry a done callback that panics after the event was written
		// and after a write error was reported
		defer func() {
			if p := recover(); p == nil && !zsim.Dying() {
				zsim.Fail("C14.returns", "Panic().Msg of %s did not panic", ev.id)
			}
		}()
		zsim.Probe("panic_event")
		finish14(applyEvent(lg.Panic().Str("id", ev.id), ev.ops), ev)
		return
	}
	if ev.level == zerolog.NoLevel {
		e = lg.Log()
	} else {
		e = lg.WithLevel(ev.level)
	}
	finish14(applyEvent(e.Str("id", ev.id), ev.ops), ev)
}

// finish14: every way of finishing an event ends in the same write and the same error
// report (the message is the same in all four).
func finish14(e *zerolog.Event, ev *c14Ev) {
	switch ev.fin {
	case 1:
		e.Str("message", "m").Send()
	case 2:
		e.Msgf("%s", "m")
	case 3:
		e.MsgFunc(func() string { return "m" })
	default:
		e.Msg("m")
	}
}
