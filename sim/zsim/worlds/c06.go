package worlds

import (
	"bytes"
	"context"
	"errors"
	"fmt"
	"io"
	"time"

	"github.com/rs/zerolog"
	zlog "github.com/rs/zerolog/log"
	"github.com/rs/zerolog/zsim"
)

// C06: concurrent logging — one intact Write per event, byte-identical to the
// same call chain run alone; buffer untouched during Write; SyncWriter excludes.
type c06World struct{}

func init() { register("c06", c06World{}) }

func (c06World) Props() []string { return []string{"C06"} }

func (c06World) Components() (real, stub []string) {
	return []string{"zerolog.Logger/Context/Event/Array (all field kinds, Dict/Arr/Object/EmbedObject/Fields/Func, hooks)", "package log global logger", "SyncWriter", "MultiLevelWriter", "LevelWriterAdapter", "ConsoleWriter", "global level / sampling switch", "event/array/console pools (through the pool shim)"},
		[]string{"destination writers (recording, yielding, sleeping, erroring)", "sync.Pool policy (LIFO/FIFO/random/miss/drop, poison on Put)", "TimestampFunc (constant)", "ErrorHandler (recorder)"}
}

type c6Chain struct {
	task, k  int
	id       string
	logger   int
	level    zerolog.Level
	ops      []fop
	fin      int
	entry    int       // 0: an Event built field by field; 1..: Print, Printf, Println, Write, Err(...).Msg and the package-level helpers
	exp      [2][]byte // expected bytes per sink (nil = no write)
	expLevel zerolog.Level
	got      [2]int
	fseq     int
	optional bool
	failOn   int  // sink index that returns an error for this event, -1 none
	shortOn  int  // sink index that accepts fewer bytes (nil error) for this event, -1 none
	panicOn  int  // sink index whose Write panics for this event (the logging goroutine recovers), -1 none
	derive   int  // 0 none; the task derives a child logger first: 1 With().Str, 2 Hook, 3 Level(Trace), 4 Output(same destination), 5 child attached to a context derived from the shared one
	viaCtx   bool // the logger is taken out of a context.Context shared by the tasks (zerolog.Ctx)
	sampler  int  // index of the shared BasicSampler its logger goes through, -1 none
	gatePass bool
	inflight bool
}

type c6Run struct {
	ch        *zsim.Choices
	dest      int
	sinks     [2]*c6Sink
	loggers   []zerolog.Logger
	chains    [][]*c6Chain
	cur       map[int]*c6Chain // task id -> chain being finalized
	solo      *c6Chain
	synced    bool
	errCalls  int
	flips     bool
	nTasks    int
	lastSeq   map[[2]int]int
	sinkBeh   int
	extraDest io.Writer
	curDest   io.Writer
	samplers  []*c6CountSampler
	samplerN  []uint32
	samplerOf []int             // per logger index: sampler index or -1
	ctxs      []context.Context // per logger index: a context carrying it, shared by the tasks
	taskOf    map[int]int       // simulator task id -> index of the logging task
}

type c6Sink struct {
	r        *c6Run
	idx      int
	inFlight int
	level    bool
}

type c6LevelSink struct{ *c6Sink }

func (s c6LevelSink) WriteLevel(l zerolog.Level, p []byte) (int, error) {
	return s.c6Sink.write(l, true, p)
}

func (s *c6Sink) Write(p []byte) (int, error) { return s.write(0, false, p) }

func (s *c6Sink) write(l zerolog.Level, hasLevel bool, p []byte) (int, error) {
	r := s.r
	if zsim.Dying() {
		return len(p), nil
	}
	if r.solo != nil {
		c := r.solo
		if c.exp[s.idx] != nil {
			zsim.Fail("C06.count", "chain %s run alone produced two writes on sink %d", c.id, s.idx)
		}
		c.exp[s.idx] = append([]byte{}, p...)
		if !bytes.Contains(p, []byte(c.id)) || p[len(p)-1] != '\n' {
			zsim.Fail("C06.bytes", "event %s run alone reached sink %d as %s (its id is missing or the line is not terminated)", c.id, s.idx, clip(p, 120))
		}
		if hasLevel {
			c.expLevel = l
		}
		return len(p), nil
	}
	s.inFlight++
	if s.inFlight > 1 {
		zsim.Probe("sink_overlap")
		if r.synced {
			zsim.Fail("C06.sync_overlap", "two overlapping calls reached a writer wrapped in SyncWriter (sink %d)", s.idx)
		}
	}
	c := r.attribute(s.idx, p)
	if c == nil {
		zsim.Fail("C06.count", "sink %d received a write that belongs to no event being finalized (calling task %d): %s", s.idx, zsim.CurID(), clip(p, 80))
	}
	if c.exp[s.idx] == nil {
		zsim.Fail("C06.count", "event %s is filtered when run alone but was written to sink %d: %s", c.id, s.idx, clip(p, 80))
	}
	if !bytes.Equal(p, c.exp[s.idx]) {
		zsim.Fail("C06.bytes", "event %s on sink %d differs from the same call chain run alone:\n got  %s\n want %s\n first difference at byte %d", c.id, s.idx, clip(p, 160), clip(c.exp[s.idx], 160), firstDiff(p, c.exp[s.idx]))
	}
	if hasLevel && l != c.expLevel {
		zsim.Fail("C06.bytes", "event %s reached WriteLevel with level %v, alone %v", c.id, l, c.expLevel)
	}
	c.got[s.idx]++
	if c.got[s.idx] > 1 {
		zsim.Fail("C06.count", "event %s written twice to sink %d", c.id, s.idx)
	}
	key := [2]int{c.task, s.idx}
	if last, ok := r.lastSeq[key]; ok && last >= c.fseq {
		zsim.Fail("C06.count", "task %d: event %s reached sink %d out of program order", c.task, c.id, s.idx)
	}
	r.lastSeq[key] = c.fseq
	sum := fnv(p)
	entry := append([]byte{}, p...)
	switch r.sinkBeh {
	case 0:
		zsim.Yield("sink.Write")
	case 1:
		zsim.Yield("sink.Write")
		zsim.Yield("sink.Write")
		zsim.Yield("sink.Write")
	case 2:
		zsim.Fault("sink_blocks_in_write")
		zsim.Sleep(time.Duration(1+len(p)%3) * time.Millisecond)
	}
	if zsim.Dying() {
		return len(p), nil
	}
	if fnv(p) != sum || !bytes.Equal(p, entry) {
		zsim.Fail("C06.mutated", "the buffer of event %s changed while sink %d was inside Write (first difference at byte %d): now %s", c.id, s.idx, firstDiff(p, entry), clip(p, 120))
	}
	s.inFlight--
	if c.panicOn == s.idx {
		// the destination panics; the caller recovers (as net/http does for a handler) and the
		// process goes on: everybody else must still be able to log
		zsim.Fault("sink_panics")
		panic("destination failure for " + c.id)
	}
	if c.failOn == s.idx {
		zsim.Fault("sink_error")
		return 0, errors.New("injected write error")
	}
	if c.shortOn == s.idx && len(p) > 1 {
		// a short count with a nil error: still exactly one Write per event
		zsim.Fault("sink_short_write")
		return len(p) / 2, nil
	}
	return len(p), nil
}

// attribute finds the event a write belongs to. Which goroutine carries an event to the
// destination is not promised (a writer may delegate to a helper or to another caller),
// so the content decides first: an event being finalized right now whose bytes, run
// alone, are exactly these and which this sink has not seen yet. Otherwise the event
// the calling task is finalizing (the comparison that follows then reports the
// difference), otherwise the one being finalized whose id the bytes carry.
func (r *c6Run) attribute(idx int, p []byte) *c6Chain {
	for _, cs := range r.chains {
		for _, c := range cs {
			if c.inflight && c.got[idx] == 0 && c.exp[idx] != nil && bytes.Equal(p, c.exp[idx]) {
				return c
			}
		}
	}
	if c := r.cur[zsim.CurID()]; c != nil {
		return c
	}
	var found *c6Chain
	for _, cs := range r.chains {
		for _, c := range cs {
			if c.inflight && bytes.Contains(p, []byte(c.id)) {
				if found != nil {
					return nil
				}
				found = c
			}
		}
	}
	return found
}

// Close makes the sinks io.Closers: under SyncWriter a Close may not overlap a Write.
func (s *c6Sink) Close() error {
	if zsim.Dying() {
		return nil
	}
	zsim.Probe("sink_closed")
	if s.inFlight > 0 && s.r.synced {
		zsim.Fail("C06.sync_overlap", "Close reached a writer wrapped in SyncWriter (sink %d) while a Write was still in flight", s.idx)
	}
	s.inFlight++
	zsim.Yield("sink.Close")
	s.inFlight--
	return nil
}

func firstDiff(a, b []byte) int {
	n := len(a)
	if len(b) < n {
		n = len(b)
	}
	for i := 0; i < n; i++ {
		if a[i] != b[i] {
			return i
		}
	}
	return n
}

// c6DiscardHook discards every event whose message selects it (deterministic
// per event, so the chain run alone and the concurrent run agree).
type c6DiscardHook struct{}

func (c6DiscardHook) Run(e *zerolog.Event, l zerolog.Level, msg string) {
	zsim.Yield("discard hook")
	if len(msg) > 0 && fnv([]byte(msg))%3 == 0 {
		zsim.Probe("hook_discards_event")
		e.Discard()
	}
}

// c6CountSampler wraps a shared BasicSampler and counts consultations and
// admissions (the wrapper itself is only ever touched by the baton holder).
type c6CountSampler struct {
	inner           *zerolog.BasicSampler
	calls, admitted int
}

func (c *c6CountSampler) Sample(l zerolog.Level) bool {
	c.calls++
	ok := c.inner.Sample(l)
	if ok {
		c.admitted++
	}
	return ok
}

type c6Hook struct{ name string }

func (h c6Hook) Run(e *zerolog.Event, l zerolog.Level, msg string) {
	zsim.Yield("hook")
	e.Str("hook", h.name)
}

func c6id(c *c6Chain) string { return c.id }

type c6RejectAll struct{}

func (c6RejectAll) Sample(zerolog.Level) bool { return false }

type c6CountWriter struct{ n int }

func (w *c6CountWriter) Write(p []byte) (int, error) { w.n++; return len(p), nil }

func (r *c6Run) buildDest() io.Writer {
	a, b := r.sinks[0], c6LevelSink{r.sinks[1]}
	switch r.dest {
	case 1:
		r.synced = true
		return zerolog.SyncWriter(a)
	case 2:
		return zerolog.MultiLevelWriter(a, b)
	case 3:
		return zerolog.ConsoleWriter{Out: a, NoColor: true, TimeFormat: time.RFC3339}
	case 4:
		r.synced = true
		return zerolog.SyncWriter(zerolog.MultiLevelWriter(a, b))
	case 5:
		return zerolog.LevelWriterAdapter{Writer: a}
	case 6:
		return b
	case 7:
		// the same destination behind two nested SyncWriter wrappers; loggers use either
		r.synced = true
		sw1 := zerolog.SyncWriter(a)
		r.extraDest = zerolog.SyncWriter(sw1)
		return sw1
	case 11:
		// ConsoleWriter calls Write (not WriteLevel) on its output: the plain-Write paths
		// of the wrappers
		r.synced = true
		return zerolog.ConsoleWriter{Out: zerolog.SyncWriter(a), NoColor: true, TimeFormat: time.RFC3339}
	case 12:
		return zerolog.ConsoleWriter{Out: zerolog.MultiLevelWriter(a, &zerolog.FilteredLevelWriter{Writer: b, Level: zerolog.DebugLevel}), NoColor: true, TimeFormat: time.RFC3339}
	case 9:
		// a TriggerLevelWriter that holds nothing back (every level is above
		// ConditionalLevel): one more mutex-protected wrapper on the path
		return &zerolog.TriggerLevelWriter{Writer: b, ConditionalLevel: zerolog.Level(-128), TriggerLevel: zerolog.Level(-128)}
	case 10:
		return &zerolog.FilteredLevelWriter{Writer: b, Level: zerolog.DebugLevel}
	case 14:
		// a ConsoleWriter (by value) behind SyncWriter: the wrapped writer is the ConsoleWriter,
		// so its Write - and with it the user's formatter callbacks - is never entered twice at once
		r.synced = true
		inFmt := 0
		return zerolog.SyncWriter(zerolog.ConsoleWriter{Out: a, NoColor: true, TimeFormat: time.RFC3339,
			FormatPrepare: func(evt map[string]interface{}) error {
				inFmt++
				if inFmt > 1 {
					zsim.Fail("C06.sync_overlap", "two overlapping calls reached a ConsoleWriter wrapped in SyncWriter: its FormatPrepare callback was entered while another call was inside it")
				}
				zsim.Yield("FormatPrepare")
				zsim.Yield("FormatPrepare")
				inFmt--
				return nil
			}})
	case 13:
		// a ConsoleWriter whose user-supplied formatters refuse some events (by their id):
		// a refused event is not written, and nothing of it may show in another event
		refuse := func(evt map[string]interface{}, k uint64) bool {
			id, _ := evt["id"].(string)
			return id != "" && fnv([]byte(id))%4 == k
		}
		return zerolog.ConsoleWriter{Out: a, NoColor: true, TimeFormat: time.RFC3339,
			FormatPrepare: func(evt map[string]interface{}) error {
				zsim.Yield("FormatPrepare")
				if refuse(evt, 0) {
					zsim.Probe("console_formatter_refuses")
					return errors.New("FormatPrepare refuses this event")
				}
				return nil
			},
			FormatExtra: func(evt map[string]interface{}, buf *bytes.Buffer) error {
				zsim.Yield("FormatExtra")
				if refuse(evt, 1) {
					zsim.Probe("console_formatter_refuses")
					return errors.New("FormatExtra refuses this event")
				}
				buf.WriteString(" extra")
				return nil
			}}
	case 8:
		return zerolog.NewConsoleWriter(func(w *zerolog.ConsoleWriter) {
			w.Out = a
			w.NoColor = true
			w.TimeFormat = time.RFC3339
			w.FieldsOrder = []string{"f1", "id", "f0", "f3", "hook"}
			w.FieldsExclude = []string{"f5"}
		})
	}
	return a
}

var c6Levels = []zerolog.Level{zerolog.InfoLevel, zerolog.DebugLevel, zerolog.WarnLevel, zerolog.ErrorLevel, zerolog.NoLevel, zerolog.TraceLevel}

func (r *c6Run) start(c *c6Chain) *zerolog.Event {
	if c.logger == len(r.loggers) {
		// the package-level logger
		if c.level == zerolog.NoLevel {
			return zlog.Log()
		}
		return zlog.WithLevel(c.level)
	}
	lg := r.loggers[c.logger]
	c0 := c
	if c.viaCtx {
		zsim.Probe("logger_from_context")
		ctx := r.ctxs[c.logger]
		if c.derive == 5 {
			// a worker gives itself a child logger and carries it in its own context,
			// derived from the shared one; the shared context keeps handing out the parent
			child := zerolog.Ctx(ctx).With().Str("derived", c.id).Logger()
			ctx = child.WithContext(ctx)
		}
		lp := zerolog.Ctx(ctx)
		if c.level == zerolog.NoLevel {
			return lp.Log()
		}
		return lp.WithLevel(c.level)
	}
	switch c.derive {
	case 1:
		lg = lg.With().Str("derived", c.id).Logger()
	case 2:
		lg = lg.Hook(c6Hook{"d" + c.id})
	case 3:
		lg = lg.Level(zerolog.TraceLevel)
	case 4:
		lg = lg.Output(r.curDest)
	case 6:
		// every task re-targets its own copy and extends that copy's context in place
		lg = lg.Output(r.curDest)
		lg.UpdateContext(func(c zerolog.Context) zerolog.Context { return c.Str("upd", c6id(c0)) })
	}
	if c.derive != 0 {
		zsim.Probe("derived_in_task")
	}
	if c.level == zerolog.NoLevel {
		return lg.Log()
	}
	return lg.WithLevel(c.level)
}

func (r *c6Run) finalize(c *c6Chain, e *zerolog.Event, seq int) {
	c.fseq = seq
	r.cur[zsim.CurID()] = c
	c.inflight = true
	switch c.fin {
	case 0:
		e.Msg("m:" + c.id)
	case 1:
		e.Send()
	case 2:
		e.Msgf("%s/%d", c.id, c.k)
	case 3:
		e.MsgFunc(func() string { zsim.Yield("MsgFunc"); return "f:" + c.id })
	case 4:
		// the caller keeps its pointer: Discard only marks the event, the finalizing call
		// through the kept pointer writes nothing and hands the event back exactly once
		zsim.Probe("discard_then_finalize")
		e.Discard()
		e.Msg("m:" + c.id)
	case 5:
		zsim.Probe("discard_then_finalize")
		e.Func(func(e *zerolog.Event) { e.Discard() }).Msg("m:" + c.id)
	}
	delete(r.cur, zsim.CurID())
	c.inflight = false
}

func (r *c6Run) runChain(c *c6Chain, seq int) {
	if c.panicOn >= 0 && r.solo == nil {
		defer func() {
			if p := recover(); p != nil {
				if zsim.Dying() {
					panic(p)
				}
				delete(r.cur, zsim.CurID())
				c.inflight = false
			}
		}()
	}
	if c.entry != 0 {
		r.runEntry(c, seq)
		return
	}
	e := r.start(c)
	e = applyEvent(e.Str("id", c.id), c.ops)
	r.finalize(c, e, seq)
}

// runEntry logs through the convenience entry points, which build and send the
// event themselves.
func (r *c6Run) runEntry(c *c6Chain, seq int) {
	c.fseq = seq
	r.cur[zsim.CurID()] = c
	c.inflight = true
	defer func() { delete(r.cur, zsim.CurID()); c.inflight = false }()
	global := c.logger == len(r.loggers)
	var lg zerolog.Logger
	if !global {
		lg = r.loggers[c.logger]
	}
	msg := "e:" + c.id
	switch c.entry {
	case 1:
		if global {
			zlog.Print(msg, 1)
		} else {
			lg.Print(msg, 1)
		}
	case 2:
		if global {
			zlog.Printf("%s/%d", msg, c.k)
		} else {
			lg.Printf("%s/%d", msg, c.k)
		}
	case 3:
		if global {
			zlog.Print(msg)
		} else {
			lg.Println(msg, "x")
		}
	case 4:
		if global {
			zlog.Logger.Write([]byte(msg + "\n"))
		} else {
			lg.Write([]byte(msg))
		}
	case 5:
		if global {
			zlog.Err(errors.New("err " + c.id)).Msg(msg)
		} else {
			lg.Err(errors.New("err " + c.id)).Msg(msg)
		}
	case 6:
		if global {
			zlog.Err(nil).Msg(msg)
		} else {
			lg.Err(nil).Msg(msg)
		}
	case 7:
		if global {
			zlog.Info().Str("id", c.id).Msg(msg)
		} else {
			lg.Info().Str("id", c.id).Msg(msg)
		}
	case 8:
		if global {
			zlog.Warn().Str("id", c.id).Msg(msg)
			zsim.Probe("package_level_helpers")
		} else {
			lg.Trace().Str("id", c.id).Msg(msg)
		}
	case 9:
		if global {
			zlog.Error().Str("id", c.id).Msg(msg)
		} else {
			lg.Debug().Str("id", c.id).Msg(msg)
		}
	case 10:
		// Panic(): the event is written, then the call panics; the application recovers and
		// goes on logging
		func() {
			defer func() {
				if p := recover(); p == nil && !zsim.Dying() {
					zsim.Fail("C06.count", "Panic().Msg of %s did not panic", c.id)
				}
			}()
			zsim.Probe("panic_level_event")
			if global {
				zlog.Panic().Str("id", c.id).Msg(msg)
			} else {
				lg.Panic().Str("id", c.id).Msg(msg)
			}
		}()
	}
}

func (c06World) Run(prop string, ch *zsim.Choices, trace bool) *RunResult {
	r := &c6Run{ch: ch, cur: map[int]*c6Chain{}, lastSeq: map[[2]int]int{}, taskOf: map[int]int{}}
	oldTS, oldEH, oldSM := zerolog.TimestampFunc, zerolog.ErrorHandler, zerolog.ErrorStackMarshaler
	oldG := zlog.Logger
	defer func() {
		zerolog.TimestampFunc, zerolog.ErrorHandler, zerolog.ErrorStackMarshaler = oldTS, oldEH, oldSM
		zlog.Logger = oldG
		zerolog.SetGlobalLevel(zerolog.TraceLevel)
		zerolog.DisableSampling(false)
	}()
	summary := ""
	main := func() {
		s := zsim.S
		zerolog.SetGlobalLevel(zerolog.TraceLevel)
		zerolog.DisableSampling(false)
		// every logging task has its own clock reading (the same when its chains are run alone):
		// anything remembered between the timestamps of two tasks shows
		zerolog.TimestampFunc = func() time.Time {
			t := -1
			if r.solo != nil {
				t = r.solo.task
			} else if v, ok := r.taskOf[zsim.CurID()]; ok {
				t = v
			}
			if t < 0 {
				return refTime
			}
			return refTime.Add(time.Duration(t) * time.Second)
		}
		zerolog.ErrorHandler = func(err error) { r.errCalls++ }
		zerolog.ErrorStackMarshaler = func(err error) interface{} { return "STACK" }
		r.sinks[0] = &c6Sink{r: r, idx: 0}
		r.sinks[1] = &c6Sink{r: r, idx: 1}
		r.dest = ch.Weighted(4, 3, 2, 2, 1, 1, 1, 2, 2, 1, 1, 1, 1, 1, 1)
		r.sinkBeh = ch.Weighted(4, 2, 2)
		// logger derivations are drawn once and built twice: one set of loggers and
		// destination wrappers for the reference (solo) runs, a fresh identical set
		// for the concurrent phase, so that lazily initialised state inside a
		// wrapper is first touched under concurrency
		type lspec struct {
			parent, kind int
			ops          []fop
			name         string
			n            uint32
		}
		var specs []lspec
		nLog := 1
		if r.dest == 7 {
			nLog = 2
		}
		nl := ch.Intn(4)
		for i := 0; i < nl; i++ {
			sp := lspec{parent: ch.Intn(nLog), kind: ch.Intn(11), name: fmt.Sprintf("h%d", i)}
			if sp.kind == 8 {
				sp.n = uint32(2 + ch.Intn(3))
			}
			if sp.kind <= 1 {
				sp.ops = genOps(ch, 1+ch.Intn(3), 1, fmt.Sprintf("c%d_", i))
			}
			specs = append(specs, sp)
			nLog++
		}
		build := func() {
			r.extraDest = nil
			dest := r.buildDest()
			r.curDest = dest
			root := zerolog.New(dest)
			r.loggers = []zerolog.Logger{root}
			r.samplerOf = []int{-1}
			r.samplers, r.samplerN = nil, nil
			if r.extraDest != nil {
				r.loggers = append(r.loggers, root.Output(r.extraDest))
				r.samplerOf = append(r.samplerOf, -1)
			}
			for _, sp := range specs {
				parent := r.loggers[sp.parent]
				r.samplerOf = append(r.samplerOf, r.samplerOf[sp.parent])
				switch sp.kind {
				case 9:
					name := sp.name
					r.loggers = append(r.loggers, parent.Hook(zerolog.HookFunc(func(e *zerolog.Event, l zerolog.Level, m string) {
						zsim.Yield("HookFunc")
						e.Str("hookfunc", name)
					})))
				case 10:
					lh := zerolog.NewLevelHook()
					lh.InfoHook = c6Hook{sp.name + "i"}
					lh.ErrorHook = c6Hook{sp.name + "e"}
					lh.NoLevelHook = c6Hook{sp.name + "n"}
					r.loggers = append(r.loggers, parent.Hook(lh))
				case 7:
					// three separate Hook calls leave the hooks slice with spare capacity
					r.loggers = append(r.loggers, parent.Hook(c6Hook{sp.name + "a"}).Hook(c6Hook{sp.name + "b"}).Hook(c6Hook{sp.name + "c"}))
				case 8:
					// a BasicSampler shared by every task that logs through this logger or its
					// descendants: which events it admits depends on the schedule, how many does not
					bs := &c6CountSampler{inner: &zerolog.BasicSampler{N: sp.n}}
					r.samplers = append(r.samplers, bs)
					r.samplerN = append(r.samplerN, sp.n)
					r.samplerOf[len(r.samplerOf)-1] = len(r.samplers) - 1
					r.loggers = append(r.loggers, parent.Sample(bs))
				case 4:
					r.loggers = append(r.loggers, parent.Hook(c6DiscardHook{}))
				case 0, 1:
					r.loggers = append(r.loggers, applyCtx(parent.With(), sp.ops).Logger())
				case 2:
					r.loggers = append(r.loggers, parent.Level(zerolog.WarnLevel))
				case 3:
					r.loggers = append(r.loggers, parent.Hook(c6Hook{sp.name}))
				case 5:
					r.loggers = append(r.loggers, parent.With().Timestamp().Logger())
				case 6:
					// the caller field names the finalizing call site, which is the same
					// line of this file in the reference run and in the concurrent run
					r.loggers = append(r.loggers, parent.With().Caller().Logger())
				}
			}
			zlog.Logger = root.With().Str("global", "g").Logger()
			r.ctxs = nil
			for _, lg := range r.loggers {
				r.ctxs = append(r.ctxs, lg.WithContext(context.Background()))
			}
		}
		build()
		r.nTasks = 2 + ch.Weighted(4, 3, 2, 1, 1)
		r.flips = ch.Chance(1, 5)
		withErrors := ch.Chance(1, 6)
		withPanics := !withErrors && ch.Chance(1, 8)
		nsinks := 1
		if r.dest == 2 || r.dest == 4 || r.dest == 12 {
			nsinks = 2
		}
		for t := 0; t < r.nTasks; t++ {
			n := 1 + ch.Intn(6)
			var cs []*c6Chain
			for k := 0; k < n; k++ {
				c := &c6Chain{task: t, k: k, id: fmt.Sprintf("t%d.%d", t, k), failOn: -1, shortOn: -1, panicOn: -1, sampler: -1}
				c.logger = ch.Intn(len(r.loggers) + 1)
				if c.logger < len(r.loggers) {
					c.sampler = r.samplerOf[c.logger]
					if ch.Chance(1, 4) {
						c.derive = []int{1, 2, 3, 4, 6}[ch.Intn(5)]
					}
					if ch.Chance(1, 4) {
						c.viaCtx = true
						c.derive = 5 * ch.Intn(2)
					}
				}
				if !withErrors && ch.Chance(1, 8) {
					c.shortOn = ch.Intn(nsinks)
				}
				if withPanics && ch.Chance(1, 5) {
					c.panicOn = ch.Intn(nsinks)
					c.optional = true // a second destination behind the panicking one may not see it
				}
				c.level = c6Levels[ch.Intn(len(c6Levels))]
				c.ops = genOps(ch, ch.Intn(7), 0, "f")
				c.fin = ch.Weighted(6, 6, 6, 6, 1, 1)
				if ch.Chance(1, 5) {
					c.entry = 1 + ch.Intn(10)
					c.level = zerolog.ErrorLevel // never optional through level flips: decided by the entry point itself
					if r.flips {
						c.entry = 0
					}
				}
				if withErrors && ch.Chance(1, 4) {
					c.failOn = ch.Intn(nsinks)
				}
				if r.flips && c.level != zerolog.NoLevel && c.level < zerolog.ErrorLevel {
					c.optional = true
				}
				if c.sampler >= 0 {
					c.optional = true // which events a shared sampler admits depends on the schedule
				}
				cs = append(cs, c)
			}
			r.chains = append(r.chains, cs)
		}
		summary = fmt.Sprintf("dest=%d tasks=%d loggers=%d samplers=%d sink-behaviour=%d level-flips=%v errors=%v", r.dest, r.nTasks, len(r.loggers)+1, len(r.samplers), r.sinkBeh, r.flips, withErrors)
		zsim.Log("config: %s", summary)
		// reference: every chain alone (no other task exists yet); sampling is switched
		// off meanwhile so that the bytes of sampled events are known too
		zerolog.DisableSampling(true)
		for _, cs := range r.chains {
			for _, c := range cs {
				r.solo = c
				r.runChain(c, 0)
				c.gatePass = c.exp[0] != nil || c.exp[1] != nil
			}
		}
		zerolog.DisableSampling(false)
		r.solo = nil
		build()
		s.ArmDraw([]string{"event.go", "array.go", "log.go", "writer.go", "console.go", "globals.go", "context.go", "fields.go", "encoder", "internal/json/", "log/"})
		var tasks []*zsim.Task
		for t := 0; t < r.nTasks; t++ {
			cs := r.chains[t]
			pairs := ch.Chance(1, 3)
			t := t
			tasks = append(tasks, zsim.Spawn(fmt.Sprintf("log%d", t), func() {
				r.taskOf[zsim.CurID()] = t
				seq := 0
				for i := 0; i < len(cs); i++ {
					if pairs && i+1 < len(cs) && cs[i].entry == 0 && cs[i+1].entry == 0 && cs[i].panicOn < 0 && cs[i+1].panicOn < 0 {
						// two events open at once, finalized in either order
						a, b := cs[i], cs[i+1]
						ea := r.start(a).Str("id", a.id)
						eb := r.start(b).Str("id", b.id)
						ea = applyEvent(ea, a.ops)
						eb = applyEvent(eb, b.ops)
						zsim.Probe("two_events_open")
						if (a.k+b.k)%3 == 0 {
							seq++
							r.finalize(b, eb, seq)
							seq++
							r.finalize(a, ea, seq)
						} else {
							seq++
							r.finalize(a, ea, seq)
							seq++
							r.finalize(b, eb, seq)
						}
						i++
						continue
					}
					seq++
					r.runChain(cs[i], seq)
				}
			}))
		}
		if cl, ok := r.curDest.(io.Closer); ok && r.synced && ch.Chance(1, 3) {
			// somebody closes the synchronized writer while others are logging (a shutdown
			// path, Fatal); the destination keeps accepting writes afterwards
			tasks = append(tasks, zsim.Spawn("closer", func() {
				for j := ch.Intn(40); j > 0; j-- {
					zsim.Yield("closer")
				}
				cl.Close()
			}))
		}
		if r.flips {
			// one task owns the global level, another the global sampling switch; each sees
			// its own setting stick whatever the other does meanwhile (they are independent
			// settings: a chain "set it, then log" behaves as when run alone)
			tasks = append(tasks, zsim.Spawn("flipper", func() {
				for i := 0; i < 6; i++ {
					lv := zerolog.TraceLevel
					if i%2 == 0 {
						lv = zerolog.ErrorLevel
					}
					zerolog.SetGlobalLevel(lv)
					zsim.Fault("global_level_flip")
					for j := ch.Intn(30); j > 0; j-- {
						zsim.Yield("flipper")
					}
					if g := zerolog.GlobalLevel(); g != lv {
						zsim.Fail("C06.global_state", "the only task that sets the global level set it to %v and reads back %v (another task was toggling DisableSampling meanwhile)", lv, g)
					}
				}
				zerolog.SetGlobalLevel(zerolog.TraceLevel)
			}))
			tasks = append(tasks, zsim.Spawn("sampling-flipper", func() {
				var probe c6CountWriter
				lg := zerolog.New(&probe).Sample(c6RejectAll{})
				for i := 0; i < 5; i++ {
					off := i%2 == 0
					zerolog.DisableSampling(off)
					zsim.Fault("sampling_switch_flip")
					for j := ch.Intn(30); j > 0; j-- {
						zsim.Yield("sampling-flipper")
					}
					// an Error event passes either global level; a sampler that rejects
					// everything lets it through exactly when sampling is switched off
					before := probe.n
					lg.Error().Msg("probe")
					if got := probe.n - before; got != map[bool]int{true: 1, false: 0}[off] {
						zsim.Fail("C06.global_state", "the only task that toggles DisableSampling set it to %v; its event through a logger whose sampler rejects everything was then written %d time(s) (another task was setting the global level meanwhile)", off, got)
					}
				}
				zerolog.DisableSampling(false)
			}))
		}
		zsim.Join(tasks...)
	}
	s := zsim.Run(zsim.Config{MaxSteps: 400000, Trace: trace}, ch, main)
	return finish(s, ch, summary, func() *zsim.Violation {
		if s.Truncated || s.Stuck {
			if s.Stuck {
				return viol("C06.blocked", "logging tasks cannot finish: %s", s.StuckInfo)
			}
			return nil
		}
		for _, cs := range r.chains {
			for _, c := range cs {
				for i := 0; i < 2; i++ {
					want := 0
					if c.exp[i] != nil {
						want = 1
					}
					if c.got[i] != want && !(c.optional && c.got[i] == 0) {
						return viol("C06.count", "event %s: sink %d received %d write(s), the chain run alone produces %d", c.id, i, c.got[i], want)
					}
				}
			}
		}
		// a BasicSampler{N} shared by the tasks admits exactly ceil(k/N) of its k consultations
		for j, n := range r.samplerN {
			c := r.samplers[j]
			if want := (c.calls + int(n) - 1) / int(n); c.admitted != want {
				return viol("C06.count", "the BasicSampler{%d} shared by the logging tasks was consulted %d times and admitted %d events, expected %d", n, c.calls, c.admitted, want)
			}
		}
		return nil
	})
}
