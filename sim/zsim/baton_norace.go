//go:build !race

package zsim

// RaceMode is true in binaries built with -race: the baton is then a spin
// hand-off on a plain word inside //go:norace functions, so that the race
// detector sees only the happens-before edges the code under test creates.
const RaceMode = false

type baton struct{ ch chan struct{} }

func newBaton() baton { return baton{ch: make(chan struct{}, 1)} }

func (b *baton) signal() { b.ch <- struct{}{} }
func (b *baton) await()  { <-b.ch }

// RaceAcquire / RaceRelease are no-ops without the race detector.
func RaceAcquire(p interface{}) {}
func RaceRelease(p interface{}) {}
